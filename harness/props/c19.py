"""C19 — CSV ingestion is faithful to the file.

Round trip: a table of cell texts is written with csv.writer, read back with serif.read_csv
(through a path, an open file and an in-memory file object; delimiters , ; TAB |; both
has_header settings) and compared with the cells it was generated from.  The only thing
assumed is csv.reader(csv.writer(records)) == records, and observe() re-checks that on
every case (a case where it does not hold is skipped and counted).

Streams
  edge       hand-written corner files (empty, header only, blank first line, one cell ...)
             x every delimiter x has_header x input mode
  lookalike  every text of the cell pool alone in a one-column file, bare and padded
  patterns   every record-length pattern for header widths 1..3 and 1..2 data records
             (each record 0 .. width+1 cells) x delimiter x has_header
  random     random tables (0..6 columns, 0..7 records, jagged, cells from the whole pool)
"""
import itertools
import json
import re

from harness import values as V
from harness.core import cbool, clist, cnat, err_name

PID = "C19"
TRANSLATE = ["EqCsv.v", "EqCsvReader.v"]     # translator tie: coq/gen_proofs/EqCsv.v is re-proved against definitions regenerated from /repo
PRELUDE = ("From Coq Require Import List.\nImport ListNotations.\n"
           "From Serif Require Import Base.PyVal Model.Csv Corr.C19.")
FAILING = "C19.failing"
SHARD = 400
RULE = ("tables of cell texts (numeric look-alikes, padded/blank cells, cells with embedded delimiters, "
        "quotes, CR/LF, unicode) x record-length pattern (short, empty, long records) x delimiter x has_header "
        "x input mode (path / open file / StringIO). Distinct = canonical JSON of the case; non-trivial = "
        ">= 1 jagged record and >= 1 cell that csv.writer had to quote and >= 1 numeric look-alike.")
EXHAUSTIVE = {"quick": False, "thorough": False}
EXHAUSTIVE_NOTE = ("the cell pool and the record-length patterns up to width 3 x 2 records are enumerated; "
                   "tables are sampled. All-lengths is the theorems' job (induction over the record list).")
ASSUMED = [
    "csv.reader(csv.writer(records)) == records for the generated records (re-checked by observe on every case; "
    "the lexical layer is the standard library's)",
    "the cell conversion is a parameter of the model: the harness evaluates the rule of the property text "
    "(blank -> None, else int(), else float(), else stripped text) with Python's own int()/float()",
]
LEVEL_NOTE = ("the model starts at the record list delivered by csv.reader; delimiter, quoting, path vs file "
              "object are exercised only by the round-trip correspondence")
DESIGN_REF = "DESIGN.md §4 C19"

DELIMS = [",", ";", "\t", "|"]
VIAS = ["path", "file", "stringio"]
# two more ways to hand the text over: a handle the caller has already read a preamble line from (read_csv reads on from where
# the handle stands), and a pathlib.Path
VIAS_MORE = ["file_after_preamble", "stringio_after_preamble"]

# ---- the cell pool ------------------------------------------------------------------
NUMLIKE = ["1", "-7", "+3", "007", "0", "-0", "1_000", "1__0", "_1", "0x10", "0b1", "0o7", "1e3", "1E-2", "1e999",
           "inf", "-inf", "Infinity", "nan", "NaN", "-nan", "1.", ".5", "-.5e1", "0.1", "-0.0", "1_0.5",
           "\u0663", "\u0661\u0662", "\uff11\uff12", "\u00b2", "\u0661\u066b\u0665", "1 2", "--1", "1j", "True",
           "None", "9" * 25, "9" * 400, "1e", "e1", "1,5", "1.5.2", "0x", "\u0967\u0968"]
PADDED = [" 1 ", "\t2", "3 ", " x ", "  ", " ", "\t", "\u00a0", "\u2003 \t", " 1_0 ", " inf", "x y", " \u00a04.5\u2003",
          "\x0c7", "\x1f", "\u200b", " a\tb "]
BLANK = [""]
EMBEDDED = ["a,b", "a;b", "a\tb", "a|b", 'q"r', '"', '""', '"x"', "l1\nl2", "l1\r\nl2", "cr\rx", "\n", "\r\n", ",",
            ";", "|", "'", 'a,"b"\n', "1,2", "1;2", " , ", "\n1", "5\n"]
UNICODE = ["\u00e9", "\u65e5\u672c", "\U0001f600", "\u00df", "\ufeffx", "\u0130", "A", "a", "col_0", "Name", "NAME"]
PLAIN = ["x", "yy", "abc", "2", "3.5", "-1", "4", "10", "0.25"]
POOL = NUMLIKE + PADDED + BLANK + EMBEDDED + UNICODE + PLAIN
LOOKALIKE = set(s.strip() for s in NUMLIKE) | {" 1 ".strip(), "\t2".strip(), "3", "1_0", "4.5", "7"}


def _needs_quote(cell, delim):
    return any(ch in cell for ch in (delim, '"', "\r", "\n"))


def _rand_cell(rng):
    r = rng.random()
    if r < 0.25:
        return rng.choice(PLAIN)
    if r < 0.50:
        return rng.choice(NUMLIKE)
    if r < 0.62:
        return rng.choice(PADDED)
    if r < 0.72:
        return ""
    if r < 0.90:
        return rng.choice(EMBEDDED)
    return rng.choice(UNICODE)


def _rand_record(rng, width):
    r = rng.random()
    if r < 0.55:
        n = width
    elif r < 0.75:
        n = rng.randint(0, max(0, width - 1))
    elif r < 0.82:
        n = 0
    else:
        n = width + rng.randint(1, 2)
    return [_rand_cell(rng) for _ in range(n)]


def streams(rng, tier):
    out = []
    # ---- edge
    files = [
        [], [[]], [[""]], [["a"]], [["a", "b"]], [["a", "a", ""]], [[], ["1", "2"]], [[""], ["1"]],
        [["a", "b"], []], [["a", "b"], [], []], [["a", "b"], ["1"]], [["a", "b"], ["1", "2", "3"]],
        [["a"], [""]], [["a"], [" "]], [["a"], ["", ""]], [["a", "b"], ["", "1"], ["2", ""]],
        [["a", "b"], ["", ""], ["1", "x"]], [["h"], [""], [""], ["1"]], [["h"], ["1"], [""], [""]],
        [["1", "2"], ["3", "4"]], [["x"], ["1", "2", "3"], ["4"]], [[" a ", "A", "a"], ["1", "2", "3"]],
        [["col_1", "col_0"], ["1", "2"]], [["a,b", "c\nd", 'e"f'], ["1", "2", "3"]], [[], []], [[], [], ["1"]],
        [["a"], ["9" * 25], ["9" * 400]], [["a", "b", "c"], ["1"], ["1", "2"], ["1", "2", "3"], ["1", "2", "3", "4"]],
    ]
    edge = [{"recs": f, "delim": d, "hh": hh, "via": via}
            for f in files for d in DELIMS for hh in (True, False) for via in VIAS]
    out.append(("edge", edge))
    # ---- lookalike: each pool text alone in a column, bare and padded
    la = []
    for k, s in enumerate(POOL):
        for j, t in enumerate([s, " " + s, s + " ", "\t" + s + "  "]):
            la.append({"recs": [["h"], [t]], "delim": DELIMS[(k + j) % 4], "hh": True, "via": VIAS[(k + j) % 3]})
        la.append({"recs": [[s, "k"], ["1", s], [s]], "delim": DELIMS[k % 4], "hh": k % 2 == 0, "via": VIAS[k % 3]})
    out.append(("lookalike", la))
    # ---- every record-length pattern up to width 3 x 2 records
    pat = []
    k = 0
    for w in (1, 2, 3):
        for nrec in (1, 2):
            for lens in itertools.product(range(0, w + 2), repeat=nrec):
                for hh in (True, False):
                    for d in DELIMS:
                        recs = [[_rand_cell(rng) for _ in range(w)]] + [[_rand_cell(rng) for _ in range(n)] for n in lens]
                        pat.append({"recs": recs, "delim": d, "hh": hh, "via": VIAS[k % 3]})
                        k += 1
    out.append(("patterns", pat))
    # ---- random tables
    rnd = []
    for _ in range(1500 if tier == "quick" else 24000):
        w = rng.choice([0, 1, 1, 2, 2, 3, 3, 4, 5, 6])
        nrec = rng.choice([0, 1, 1, 2, 3, 3, 4, 5, 7])
        recs = [[_rand_cell(rng) for _ in range(w)]] + [_rand_record(rng, w) for _ in range(nrec)]
        if rng.random() < 0.03:
            recs = []
        rnd.append({"recs": recs, "delim": rng.choice(DELIMS), "hh": rng.random() < 0.6,
                    "via": rng.choice(VIAS + VIAS + VIAS_MORE)})
    out.append(("random", rnd))
    return out


# ------------------------------------------------------------------ implementation side

def _conv_rule(text):
    """The cell rule of the property text, evaluated with Python's own int()/float()."""
    stripped = text.strip()
    if stripped == "":
        return None
    for ctor in (int, float):
        try:
            return ctor(stripped)
        except ValueError:
            continue
    return stripped


def _texts(recs):
    seen, out = set(), []
    for r in recs:
        for c in r:
            if c not in seen:
                seen.add(c)
                out.append(c)
    return out


def observe(case):
    import csv
    import io
    import os
    import tempfile
    from serif import read_csv
    recs, delim, hh, via = case["recs"], case["delim"], case["hh"], case["via"]
    buf = io.StringIO(newline="")
    w = csv.writer(buf, delimiter=delim)
    for r in recs:
        w.writerow(r)
    text = buf.getvalue()
    back = list(csv.reader(io.StringIO(text, newline=""), delimiter=delim))
    if back != recs:
        return {"skip": "csv.reader(csv.writer(records)) != records"}
    texts = _texts(recs)
    res = {"texts": texts, "conv": [V.enc(_conv_rule(t)) for t in texts]}
    path = None
    try:
        if via == "stringio":
            t = read_csv(io.StringIO(text, newline=""), delimiter=delim, has_header=hh)
        elif via == "stringio_after_preamble":
            f = io.StringIO("# exported; do not edit" + delim + "v1\r\n" + text, newline="")
            f.readline()
            t = read_csv(f, delimiter=delim, has_header=hh)
        elif via == "file_after_preamble":
            fd, path = tempfile.mkstemp(prefix="c19-", suffix=".csv")
            with os.fdopen(fd, "w", encoding="utf-8", newline="") as f:
                f.write("# exported; do not edit" + delim + "v1\r\n" + text)
            with open(path, "r", encoding="utf-8", newline="") as f:
                f.readline()
                t = read_csv(f, delimiter=delim, has_header=hh)
        else:
            fd, path = tempfile.mkstemp(prefix="c19-", suffix=".csv")
            with os.fdopen(fd, "w", encoding="utf-8", newline="") as f:
                f.write(text)
            if via == "path":
                t = read_csv(path, delimiter=delim, has_header=hh)
            else:
                with open(path, "r", encoding="utf-8", newline="") as f:
                    t = read_csv(f, delimiter=delim, has_header=hh)
        shape = t.shape
        res["shape"] = [int(x) for x in shape] if isinstance(shape, tuple) else None
        res["names"] = [V.enc(n) for n in t.column_names()]
        res["cols"] = [{"vals": [V.enc(x) for x in c], "dt": V.schema_obs(c.schema())} for c in t.cols()]
        res["len"] = len(t)
    except Exception as e:
        res["exc"] = err_name(e)
        res["msg"] = f"{type(e).__name__}: {e}"[:160]
    finally:
        if path:
            try:
                os.unlink(path)
            except OSError:
                pass
    return res


# ------------------------------------------------------------------ Coq emitter

def emit(case, obs):
    if "skip" in obs:
        return "CSkip"
    if "exc" in obs or obs.get("shape") is None or len(obs["shape"]) != 2:
        return "CBad"
    tid = {t: i for i, t in enumerate(obs["texts"])}
    vids = {}

    def cval(tag):
        if tag[0] == "N":
            return "None"
        if tag[0] not in V._TAG_KIND:
            return "(Some (4999, mkV KObject false))"
        key = json.dumps(tag)
        vid = vids.setdefault(key, len(vids))
        k, ex = V._TAG_KIND[tag[0]]
        return f"(Some ({cnat(vid)}, mkV {k} {cbool(ex)}))"

    recs = clist(clist(cnat(tid[c]) for c in r) for r in case["recs"])
    conv = clist(f"({cnat(i)}, {cval(tag)})" for i, tag in enumerate(obs["conv"]))
    fresh = len(tid)
    cols = []
    for name, col in zip(obs["names"], obs["cols"]):
        nm = None
        if name[0] == "s":
            if case["hh"]:
                if name[1] in tid:
                    nm = f"(NText {cnat(tid[name[1]])})"
            else:
                m = re.fullmatch(r"col_(0|[1-9][0-9]{0,2})", name[1])
                if m:
                    nm = f"(NGen {cnat(int(m.group(1)))})"
        if nm is None:
            fresh += 1
            nm = f"(NText {cnat(fresh)})"
        dt = "None" if col["dt"] is None else f"(Some {V.coq_dtype(col['dt'])})"
        cols.append(f"(mkCol {nm} {clist(cval(t) for t in col['vals'])} {dt})")
    if len(obs["names"]) != len(obs["cols"]) or obs["shape"][0] >= 5000 or obs["shape"][1] >= 5000:
        return "CBad"
    return (f"CRead {cbool(case['hh'])} {recs} {conv} ({cnat(obs['shape'][0])}, {cnat(obs['shape'][1])}) "
            f"{clist(cols)}")


# ------------------------------------------------------------------ independent oracle

def _want_cell(text):
    """'None if empty or blank, else an int if int() accepts its stripped text, else a float if
    float() does, else the stripped string' — as a tag."""
    if text == "" or text.isspace():
        return ["N"]
    s = text.strip()
    try:
        return ["i", int(s)]
    except ValueError:
        pass
    try:
        return ["f", float(s).hex()]
    except ValueError:
        pass
    return ["s", s]


def oracle(case, obs):
    if "skip" in obs:
        return None
    recs, hh = case["recs"], case["hh"]
    if "exc" in obs:
        what = "empty-input" if not recs else ("header-only" if (hh and len(recs) == 1) else "read")
        return f"{what}-raises: read_csv raised {obs['msg']} on {len(recs)} record(s), has_header={hh}"
    if not recs:
        header, data = [], []
    elif hh:
        header, data = recs[0], recs[1:]
    else:
        header, data = [f"col_{i}" for i in range(len(recs[0]))], recs
    names = [n[1] if n[0] == "s" else n for n in obs["names"]]
    if len(obs["cols"]) != len(header) or len(names) != len(header):
        return f"ncols: {len(obs['cols'])} column(s) for a header of {len(header)} cell(s)"
    if names != header:
        return f"names: columns are named {names!r}, the header is {header!r}"
    shape = obs["shape"]
    if shape is None or len(shape) != 2 or shape[1] != len(header):
        return f"ncols: shape {shape} for a header of {len(header)} cell(s)"
    if header:      # a table without columns cannot hold rows in serif: nothing to compare
        if shape[0] != len(data) or obs["len"] != len(data):
            return f"nrows: shape {shape}, len {obs['len']} for {len(data)} data record(s)"
    for j, col in enumerate(obs["cols"]):
        if len(col["vals"]) != len(data):
            return f"nrows: column {j} has {len(col['vals'])} cell(s) for {len(data)} data record(s)"
        for i, rec in enumerate(data):
            want = _want_cell(rec[j]) if j < len(rec) else ["N"]
            if col["vals"][i] != want:
                src = repr(rec[j]) if j < len(rec) else "<record too short>"
                return f"cell: row {i} column {j} is {col['vals'][i]} but the file has {src} (rule says {want})"
        if data:
            want_dt = V.infer_closed(col["vals"])
            if col["dt"] != want_dt:
                return f"dtype: column {j} holds {col['vals']} but is typed {col['dt']}, inference says {want_dt}"
        elif col["dt"] not in (None, ["KObject", True]):
            return f"dtype: empty column {j} is typed {col['dt']}"
    return None


def nontrivial(case, obs):
    if "skip" in obs or not case["recs"]:
        return False
    recs = case["recs"]
    w = len(recs[0])
    jag = any(len(r) != w for r in recs[1:])
    quoted = any(_needs_quote(c, case["delim"]) for r in recs for c in r)
    look = any(c.strip() in LOOKALIKE for r in recs for c in r)
    return jag and quoted and look


def describe(case, obs, stream):
    if "skip" in obs:
        return [f"{stream}:skipped(roundtrip)"]
    recs = case["recs"]
    out = [f"via:{case['via']}", f"delim:{case['delim']!r}", f"has_header:{case['hh']}"]
    if "exc" in obs:
        out.append(f"{stream}:exc")
    if not recs:
        out.append("shape:empty-input")
    else:
        w = len(recs[0])
        data = recs[1:] if case["hh"] else recs
        if not data:
            out.append("shape:header-only")
        if w == 0:
            out.append("shape:zero-width-header(rows not representable)")
        if any(len(r) < w for r in data):
            out.append("records:short")
        if any(len(r) > w for r in data):
            out.append("records:long")
        if any(len(r) == 0 for r in data):
            out.append("records:empty")
    return out


def shrink(case):
    recs = case["recs"]
    for i in range(len(recs) - 1, -1, -1):
        yield dict(case, recs=recs[:i] + recs[i + 1:])
    for i, r in enumerate(recs):
        for j in range(len(r) - 1, -1, -1):
            yield dict(case, recs=recs[:i] + [r[:j] + r[j + 1:]] + recs[i + 1:])
    for i, r in enumerate(recs):
        for j, c in enumerate(r):
            if c not in ("x", "1"):
                for rep in ("x", "1"):
                    yield dict(case, recs=recs[:i] + [r[:j] + [rep] + r[j + 1:]] + recs[i + 1:])
    if case["via"] != "stringio":
        yield dict(case, via="stringio")
    if case["delim"] != ",":
        yield dict(case, delim=",")


def neighbours(case, rng):
    out = []
    for d in DELIMS:
        for hh in (True, False):
            for via in VIAS:
                out.append(dict(case, delim=d, hh=hh, via=via))
    recs = case["recs"]
    if recs:
        out.append(dict(case, recs=recs[:1]))
        out.append(dict(case, recs=recs + [[]]))
        out.append(dict(case, recs=recs + [recs[0] + ["1"]]))
    return out
