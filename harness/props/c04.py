"""C04 — dtype inference and promotion form an order-independent lattice.

Streams
  promote   exhaustive: every dtype (14 kinds x nullable) x every value representative
  infer     exhaustive: every sequence of length <= 3 over the value representatives,
            through infer_dtype() and through Vector(values).schema()
  perm      random multisets of length 4..7 with all their distinct permutations
  callsite  results of arithmetic, joins, aggregates and CSV parsing: the schema the
            implementation reports vs inference over the result's own values
"""
import itertools

from harness import values as V
from harness.core import cbool, clist, err_name

PID = "C04"
TRANSLATE = ["EqTyping.v"]     # translator tie: coq/gen_proofs/EqTyping.v is re-proved against definitions regenerated from /repo
PRELUDE = "From Coq Require Import List.\nImport ListNotations.\nFrom Serif Require Import Base.PyVal Corr.C04."
FAILING = "C04.failing"
SHARD = 500
RULE = ("promote: the full (dtype, value-class) table; infer: every sequence of length <= 3 over "
        "23 value representatives plus random multisets with all permutations; callsite: results of "
        "arithmetic/join/aggregate/CSV. Distinct = canonical JSON of the case; non-trivial = the sequence "
        "holds >= 2 distinct classes, or a None that is not last, or (promote) the value's class differs "
        "from the dtype's kind.")
EXHAUSTIVE = {"quick": True, "thorough": True}
EXHAUSTIVE_NOTE = ("exhaustive over the finite kernel: promote_with on all 28 dtypes x 23 "
                   "value classes, infer_dtype on all sequences of length <= 3; induction over length is the "
                   "theorems' job. The perm/callsite streams are sampled.")
ASSUMED = [
    "a value is seen by typing.py only through infer_kind(value) and type(value) (classes that subclass two "
    "ladder types at once, e.g. both int and date, are outside the model)",
    "DataType kinds are in the range of infer_kind (a DataType built by hand with a subclass as kind is not modelled)",
]

REPS = [["N"], ["b", True], ["i", 3], ["f", (2.5).hex()], ["c", (1.0).hex(), (2.0).hex()], ["s", "a"],
        ["y", "6162"], ["d", 738000], ["dt", 738000, 3600], ["F", (2.0).hex()], ["S", "zz"], ["IE", 2],
        ["I2", 5], ["DT2", 738001, 0], ["Dec", "1.5"], ["Fr", 1, 3], ["td", 2], ["U1", 0], ["U2", 0], ["U1b", 0],
        ["O"], ["l", [["i", 1]]], ["t", [["i", 1]]], ["D", []]]
KINDS = ["KBool", "KInt", "KFloat", "KComplex", "KStr", "KBytes", "KDateTime", "KDate", "KList", "KDict",
         "KTuple", "(KOther 0)", "(KOther 3)", "KObject"]


def streams(rng, tier):
    out = []
    pairs = [{"op": "promote", "d": [k, n], "v": v} for k in KINDS for n in (False, True) for v in REPS]
    out.append(("promote", pairs))
    seqs = []
    for n in range(0, 4):
        for tup in itertools.product(REPS, repeat=n):
            seqs.append({"op": "infer", "l": list(tup)})
    out.append(("infer", seqs))
    # Vector(values).schema(): the same rule through the constructor (lengths 1..2 exhaustive, 3 sampled)
    vec = [{"op": "vector", "l": list(t)} for n in (1, 2) for t in itertools.product(REPS, repeat=n)]
    tri = list(itertools.product(REPS, repeat=3))
    for t in rng.sample(tri, 1500 if tier == "quick" else 6000):
        # a vector whose elements are all Vectors becomes a Table; none of the REPS is a Vector
        vec.append({"op": "vector", "l": list(t)})
    out.append(("vector", vec))
    perm = []
    nm = 40 if tier == "quick" else 400
    for _ in range(nm):
        n = rng.randint(4, 7 if tier == "thorough" else 6)
        pool = rng.sample(REPS, rng.randint(1, 4))
        ms = [rng.choice(pool) for _ in range(n)]
        ps = set(itertools.permutations(range(n)))
        seen = set()
        for p in rng.sample(sorted(ps), min(len(ps), 60)):
            l = [ms[i] for i in p]
            key = str(l)
            if key not in seen:
                seen.add(key)
                perm.append({"op": "infer", "l": l})
    out.append(("perm", perm))
    out.append(("callsite", callsite_cases(rng, 400 if tier == "quick" else 4000)))
    out.append(("write", [write_case(rng) for _ in range(600 if tier == "quick" else 6000)]))
    out.append(("lshift", [lshift_case(rng) for _ in range(400 if tier == "quick" else 4000)]))
    return out


SCALARS = [["i", 2], ["i", -3], ["b", True], ["b", False], ["f", (0.5).hex()], ["f", (2.0).hex()],
           ["c", (0.0).hex(), (1.0).hex()], ["N"], ["Fr", 1, 2], ["Dec", "2"], ["F", (1.5).hex()], ["IE", 2],
           ["s", "x"], ["s", "yy"]]
OPS = ["add", "sub", "mul", "truediv", "floordiv", "mod", "pow", "radd", "rsub", "rmul", "neg", "abs", "pos"]


def rand_vec(rng, n, pool):
    return [rng.choice(pool) for _ in range(n)]


HOMOG = {"bool": [["b", True], ["b", False]], "int": [["i", 2], ["i", -3], ["i", 0]],
         "float": [["f", (0.5).hex()], ["f", (-8.0).hex()], ["f", (2.0).hex()]],
         "complex": [["c", (0.0).hex(), (1.0).hex()], ["c", (2.0).hex(), (0.0).hex()]],
         "str": [["s", "x"], ["s", "%s"]]}


def homogeneous_cases(rng):
    """Every operator on operands of ONE kind (the place where a 'closed under the operator' shortcut
    would keep the operand dtype): True + True, 2 ** -3, (-8.0) ** 0.5, 7 / 2 ... with and without None,
    vector-vector, vector-list and vector-scalar forms."""
    cs = []
    for kind, pool in HOMOG.items():
        for fn in OPS:
            for nullable in (False, True):
                for form in ("vec", "list", "scalar"):
                    ln = rng.randint(1, 3)
                    a = [rng.choice(pool) for _ in range(ln)] + ([["N"]] if nullable else [])
                    if form == "scalar":
                        b = rng.choice(pool)
                    else:
                        b = [rng.choice(pool) for _ in range(len(a))]
                    rng.shuffle(a)
                    cs.append({"op": "arith", "fn": fn, "a": a, "b": b, "form": form})
    # operators that LEAVE the operands' kind: int ** negative int is a float, negative float ** fraction is a
    # complex, int / int is a float, bool + bool is an int (no zero base, so Python defines every scalar result)
    leave = [("pow", [["i", 2], ["i", 4]], ["i", -1]), ("pow", [["i", -2], ["i", 3]], ["i", -3]),
             ("pow", [["f", (-8.0).hex()], ["f", (4.0).hex()]], ["f", (0.5).hex()]),
             ("pow", [["f", (-2.0).hex()], ["f", (-9.0).hex()]], ["f", (1.5).hex()]),
             ("truediv", [["i", 7], ["i", 2]], ["i", 2]), ("add", [["b", True], ["b", True]], ["b", True]),
             ("sub", [["b", False], ["b", True]], ["b", True]), ("mul", [["b", True], ["b", False]], ["b", True]),
             ("rsub", [["i", 3], ["i", 5]], ["i", 1]), ("pow", [["c", (0.0).hex(), (1.0).hex()]], ["c", (2.0).hex(), (0.0).hex()])]
    for fn, a, b in leave:
        for nullable in (False, True):
            aa = a + ([["N"]] if nullable else [])
            cs.append({"op": "arith", "fn": fn, "a": aa, "b": b, "form": "scalar"})
            cs.append({"op": "arith", "fn": fn, "a": aa, "b": [b] * len(aa), "form": "vec"})
            cs.append({"op": "arith", "fn": fn, "a": aa, "b": [b] * len(aa), "form": "list"})
        if fn == "pow":                                       # scalar ** vector
            cs.append({"op": "arith", "fn": "rpow", "a": [b, b], "b": a[0], "form": "scalar"})
    return cs


def write_case(rng):
    # ONE in-place write along the numeric ladder (bool < int < float < complex), None among the values or not,
    # through every key form: the dtype afterwards is the old one promoted by every written value
    ladder = [["b", True], ["i", 3], ["i", -1], ["f", (2.5).hex()], ["c", (1.0).hex(), (2.0).hex()], ["N"]]
    top = rng.randint(1, 4)
    start = [x for x in ladder[:top + 1] if x[0] != "N"] + ([["N"]] if rng.random() < 0.3 else [])
    ln = rng.randint(1, 5)
    a = rand_vec(rng, ln, start)
    if all(x[0] == "N" for x in a):
        a[0] = start[0]
    if rng.random() < 0.2 and ln >= 2:
        # an OBJECT vector (kinds that do not agree) holding no None: a None written into it makes it nullable like any other
        a = [rng.choice([["i", 1], ["s", "x"], ["f", (1.5).hex()]]) for _ in range(ln)]
        a[0], a[1] = ["i", 1], ["s", "x"]
    form = rng.choice(["slice", "mask", "idx", "int", "table"])
    pos = sorted(rng.sample(range(ln), rng.randint(1, ln))) if form != "int" else [rng.randrange(ln)]
    if form == "slice":
        lo = rng.randrange(ln)
        pos = list(range(lo, rng.randint(lo + 1, ln)))
    return {"op": "write", "a": a, "form": form, "pos": pos, "vals": rand_vec(rng, len(pos), ladder),
            # every None the vector holds is first overwritten, one cell at a time, by a value of its own kind: the dtype stays
            # what it was - nullable - although no None is left, and the write that follows starts from THAT dtype
            "prefill": rng.random() < 0.4}


def lshift_case(rng):
    # v << [values] on a vector whose dtype is WIDER than its present values (it held a None / a wider value that was since
    # overwritten in place): the result's dtype is the left dtype promoted by every appended value, never narrower
    ladder = [["b", True], ["i", 3], ["f", (2.5).hex()], ["c", (1.0).hex(), (2.0).hex()], ["N"]]
    top = rng.randint(1, 3)
    a = rand_vec(rng, rng.randint(1, 4), ladder[:top + 1] + [["N"]])
    if all(x[0] == "N" for x in a):
        a[0] = ladder[0]
    over = rng.choice([["b", False], ["i", 1]]) if top >= 1 else ["b", False]
    return {"op": "lshift", "a": a, "over": over, "overwrite": rng.random() < 0.8,
            # (now and then a str among the appended values: the kind becomes object at that value, a None AFTER it still counts)
            "vals": rand_vec(rng, rng.randint(0, 3), ladder[:rng.randint(1, 4)] + ([["N"]] if rng.random() < 0.3 else []))
                    + ([["s", "x"], rng.choice([["N"], ["i", 4]])][:rng.randint(1, 2)] if rng.random() < 0.2 else []),
            # the right operand as a list, or as a VECTOR whose schema is wider than the values it holds now (a slice of a
            # nullable / wider vector that left the None / the wide value behind): the result is typed by the appended VALUES
            "right": rng.choice(["list", "list", "vec_nullable", "vec_wider"])}


def callsite_cases(rng, n):
    cs = homogeneous_cases(rng)
    numeric = [s for s in SCALARS if s[0] not in ("s",)]
    strs = [["s", "x"], ["s", "yy"], ["N"], ["S", "q"]]
    for _ in range(n):
        kind = rng.choice(["arith_vv", "arith_vs", "arith_vs", "join", "agg", "csv", "write"])
        if kind == "arith_vv":
            ln = rng.randint(0, 4)
            pool = rng.choice([numeric, numeric, strs])
            cs.append({"op": "arith", "fn": rng.choice(OPS), "a": rand_vec(rng, ln, pool),
                       "b": rand_vec(rng, ln, pool), "form": rng.choice(["vec", "list"])})
        elif kind == "arith_vs":
            ln = rng.randint(0, 4)
            pool = rng.choice([numeric, numeric, strs])
            cs.append({"op": "arith", "fn": rng.choice(OPS), "a": rand_vec(rng, ln, pool),
                       "b": rng.choice([x for x in pool if x[0] != "N"]), "form": "scalar"})
        elif kind == "write":
            cs.append(write_case(rng))
        elif kind == "join":
            nl, nr = rng.randint(0, 4), rng.randint(0, 4)
            keys = [["i", 1], ["i", 2], ["i", 3]]
            pay = [["i", 5], ["f", (1.5).hex()], ["N"], ["b", True], ["s", "p"], ["d", 738000], ["dt", 738000, 60]]
            cs.append({"op": "join", "how": rng.choice(["inner_join", "join", "full_join"]),
                       "lk": rand_vec(rng, nl, keys), "lp": rand_vec(rng, nl, pay),
                       "rk": rand_vec(rng, nr, keys), "rp": rand_vec(rng, nr, pay)})
        elif kind == "agg":
            nrow = rng.randint(0, 6)
            keys = [["s", "a"], ["s", "b"], ["N"]]
            pay = rng.choice([[["i", 5], ["i", 1], ["N"]], [["i", 2], ["f", (1.5).hex()], ["N"]],
                              [["b", True], ["i", 4], ["N"]]])
            cs.append({"op": "agg", "k": rand_vec(rng, nrow, keys), "p": rand_vec(rng, nrow, pay),
                       "window": rng.random() < 0.4})
        else:
            cells = ["1", "2.5", "", " ", "x", "1e3", "-7", "inf", "0x10", "3 "]
            nrow, ncol = rng.randint(0, 4), rng.randint(1, 3)
            cs.append({"op": "csv", "rows": [[rng.choice(cells) for _ in range(rng.randint(max(0, ncol - 1), ncol))]
                                             for _ in range(nrow)], "ncol": ncol})
    return cs


# ------------------------------------------------------------------ implementation side

def _kind_class(tok):
    import datetime as dt
    import decimal
    return {"KBool": bool, "KInt": int, "KFloat": float, "KComplex": complex, "KStr": str, "KBytes": bytes,
            "KDateTime": dt.datetime, "KDate": dt.date, "KList": list, "KDict": dict, "KTuple": tuple,
            "(KOther 0)": decimal.Decimal, "(KOther 3)": V.U1, "KObject": object}[tok]


def _cols_obs(t):
    return [{"vals": [V.enc(x) for x in c._underlying], "dt": V.schema_obs(c.schema())} for c in t._underlying]


def observe(case):
    import operator
    from serif import Vector, Table, read_csv
    from serif.typing import DataType, infer_dtype, validate_scalar
    op = case["op"]
    try:
        if op == "promote":
            d = DataType(_kind_class(case["d"][0]), case["d"][1])
            return {"dt": V.schema_obs(d.promote_with(V.dec(case["v"])))}
        if op == "validate":
            d = DataType(_kind_class(case["d"][0]), case["d"][1])
            try:
                validate_scalar(V.dec(case["v"]), d)
                return {"ok": True}
            except TypeError:
                return {"ok": False}
        if op == "infer":
            return {"dt": V.schema_obs(infer_dtype([V.dec(x) for x in case["l"]]))}
        if op == "vector":
            return {"dt": V.schema_obs(Vector([V.dec(x) for x in case["l"]]).schema())}
        if op == "arith":
            a = Vector([V.dec(x) for x in case["a"]])
            fn = case["fn"]
            if fn in ("neg", "abs", "pos"):
                scal = {"neg": operator.neg, "abs": operator.abs, "pos": operator.pos}[fn]
                [scal(x) for x in a if x is not None]      # Python itself must define it
                r = scal(a)
            else:
                if case["form"] == "scalar":
                    b = V.dec(case["b"])
                    pairs = [(x, b) for x in a]
                else:
                    b = [V.dec(x) for x in case["b"]]
                    pairs = list(zip(a, b))
                    if case["form"] == "vec":
                        b = Vector(b)
                refl = fn.startswith("r")
                scal = getattr(operator, fn[1:] if refl else fn)
                for x, y in pairs:                          # Python itself must define it
                    if x is not None and y is not None:
                        scal(y, x) if refl else scal(x, y)
                if refl:
                    if isinstance(b, Vector):
                        b = list(b)
                    r = scal(b, a)
                else:
                    r = scal(a, b)
            if not isinstance(r, Vector) or isinstance(r, Table):
                return {"skip": "non-vector result"}
            return {"cols": [{"vals": [V.enc(x) for x in r._underlying], "dt": V.schema_obs(r.schema())}]}
        if op == "lshift":
            v = Vector([V.dec(x) for x in case["a"]])
            if case["overwrite"]:
                for i in range(len(v)):
                    v[i] = V.dec(case["over"])               # every None / wide value is gone; the dtype stays
            before = V.schema_obs(v.schema())
            rv = [V.dec(x) for x in case["vals"]]
            right = rv
            if case.get("right") == "vec_nullable" and rv and all(x is not None for x in rv):
                right = Vector(rv + [None])[0:len(rv)]
            elif case.get("right") == "vec_wider" and rv and all(type(x) in (bool, int) for x in rv):
                right = Vector(rv + [2.5])[0:len(rv)]          # typed <float>, holding the ints / bools as they were given
                if [type(x) for x in right._underlying] != [type(x) for x in rv]:
                    right = rv
            try:
                r = v << right
            except Exception as e:                           # noqa: BLE001
                if isinstance(right, Vector):
                    return {"skip": f"refused: {type(e).__name__}"}
                raise
            return {"before": before, "left": [V.enc(x) for x in v._underlying], "appended": case["vals"],
                    "cols": [{"vals": [V.enc(x) for x in r._underlying], "dt": V.schema_obs(r.schema())}]}
        if op == "write":
            v = Vector([V.dec(x) for x in case["a"]])
            if case.get("prefill"):
                own = [V.dec(x) for x in case["a"] if x[0] != "N"]
                for i, x in enumerate(case["a"]):
                    if x[0] == "N" and own:
                        v[i] = own[0]
            before = V.schema_obs(v.schema())
            vals, pos, form = [V.dec(x) for x in case["vals"]], case["pos"], case["form"]
            tgt = v
            if form == "table":
                t = Table({"c": v, "d": list(range(len(v)))}) if False else Table([v.alias("c"), Vector(list(range(len(v))), name="d")])
                t[pos, "c"] = vals
                tgt = t.cols()[0]
            elif form == "int":
                v[pos[0]] = vals[0]
            elif form == "slice":
                v[pos[0]:pos[-1] + 1] = vals
            elif form == "mask":
                v[[i in pos for i in range(len(v))]] = vals
            else:
                v[pos] = vals
            return {"before": before, "cols": [{"vals": [V.enc(x) for x in tgt._underlying], "dt": V.schema_obs(tgt.schema())}]}
        if op == "join":
            L = Table({"k": [V.dec(x) for x in case["lk"]], "lp": [V.dec(x) for x in case["lp"]]})
            R = Table({"k2": [V.dec(x) for x in case["rk"]], "rp": [V.dec(x) for x in case["rp"]]})
            if not case["lk"] or not case["rk"]:
                return {"skip": "empty side (untyped key column)"}
            r = getattr(L, case["how"])(R, "k", "k2", expect="many_to_many")
            return {"cols": _cols_obs(r)}
        if op == "agg":
            if not case["k"]:
                return {"skip": "empty"}
            t = Table({"k": [V.dec(x) for x in case["k"]], "p": [V.dec(x) for x in case["p"]]})
            f = t.window if case["window"] else t.aggregate
            r = f(over="k", sum_over="p", mean_over="p", min_over="p", max_over="p", count_over="p")
            return {"cols": _cols_obs(r)}
        if op == "csv":
            import csv
            import io
            buf = io.StringIO()
            w = csv.writer(buf)
            w.writerow([f"h{i}" for i in range(case["ncol"])])
            for row in case["rows"]:
                w.writerow(row)
            r = read_csv(io.StringIO(buf.getvalue()))
            return {"cols": _cols_obs(r)}
    except (TypeError, ZeroDivisionError, OverflowError, ValueError) as e:
        if op == "arith":
            return {"skip": "python rejects the scalar operation: " + type(e).__name__}
        return {"exc": err_name(e), "msg": f"{type(e).__name__}: {e}"[:160]}
    except Exception as e:
        return {"exc": err_name(e), "msg": f"{type(e).__name__}: {e}"[:160]}
    return {"exc": "OtherError", "msg": "unknown op"}


# ------------------------------------------------------------------ Coq emitter

def _seq(tags):
    return clist(V.tag_vinfo(t) for t in tags)


def emit(case, obs):
    op = case["op"]
    if "skip" in obs:
        return "CSkip"
    if "exc" in obs:
        return "CBad"
    if op == "promote":
        return f"CPromote (mkD {case['d'][0]} {cbool(case['d'][1])}) {V.tag_vinfo(case['v'])} {V.coq_dtype(obs['dt'])}"
    if op == "validate":
        return f"CValidate {V.tag_vinfo(case['v'])} (mkD {case['d'][0]} {cbool(case['d'][1])}) {cbool(obs['ok'])}"
    if op in ("infer", "vector"):
        if obs["dt"] is None:
            return "CSkip" if (op == "vector" and not case["l"]) else "CBad"
        return f"CInfer {_seq(case['l'])} {V.coq_dtype(obs['dt'])}"
    if op == "lshift":
        d = obs["before"]
        if d is None or obs["cols"][0]["dt"] is None:
            return "CSkip"
        steps = []
        app = obs.get("appended", case["vals"])
        for i, x in enumerate(app):
            nxt = [d[0], True] if x[0] == "N" else [V.join_kind(d[0], V.tag_kind(x)), d[1]]
            if i == len(app) - 1:
                nxt = obs["cols"][0]["dt"]
            steps.append(f"CPromote {V.coq_dtype(d)} {V.tag_vinfo(x)} {V.coq_dtype(nxt)}")
            d = nxt
        if not app and obs["cols"][0]["dt"] != d:
            return "CBad"
        return "CAll " + clist(steps)
    if op == "write":
        # the model's promote_with, step by step along the written values; the last step must land on the observed dtype
        d = obs["before"]
        if d is None or obs["cols"][0]["dt"] is None:
            return "CBad"
        steps = []
        for i, x in enumerate(case["vals"]):
            nxt = [d[0], True] if x[0] == "N" else [V.join_kind(d[0], V.tag_kind(x)), d[1]]
            if i == len(case["vals"]) - 1:
                nxt = obs["cols"][0]["dt"]
            steps.append(f"CPromote {V.coq_dtype(d)} {V.tag_vinfo(x)} {V.coq_dtype(nxt)}")
            d = nxt
        return "CAll " + clist(steps)
    # an empty column may be untyped (schema None): the library's "no dtype yet" state
    cols = [c for c in obs["cols"] if not (c["dt"] is None and not c["vals"])]
    if any(c["dt"] is None for c in cols):
        return "CBad"
    if any(t[0] == "?" for c in cols for t in c["vals"]):
        return "CSkip"
    return "CAll " + clist(f"CInfer {_seq(c['vals'])} {V.coq_dtype(c['dt'])}" for c in cols)


# ------------------------------------------------------------------ independent oracle

def oracle(case, obs):
    op = case["op"]
    if "skip" in obs:
        return None
    if "exc" in obs:
        return f"{op}-raises: {obs['msg']}"
    if op == "promote":
        d, v = case["d"], case["v"]
        if v[0] == "N":
            want = [d[0], True]
        else:
            want = [V.join_kind(d[0], V.tag_kind(v)), d[1]]
        if obs["dt"] != want:
            return f"promote: {d} with {v} gave {obs['dt']}, lattice says {want}"
        return None
    if op == "validate":
        return None      # validate_scalar is a helper; its contract is pinned by the model only
    if op in ("infer", "vector"):
        if op == "vector" and not case["l"]:
            return None
        want = V.infer_closed(case["l"])
        if obs["dt"] != want:
            return f"infer: {case['l']} typed {obs['dt']}, rule says {want}"
        return None
    if op == "lshift":
        if obs["before"] is None:
            return None
        k, nl = obs["before"]
        for x in obs["appended"]:
            if x[0] == "N":
                nl = True
            else:
                k = V.join_kind(k, V.tag_kind(x))
        c = obs["cols"][0]
        if c["dt"] != [k, nl]:
            return (f"callsite-lshift: a vector typed {obs['before']} holding {obs['left']} << {obs['appended']} "
                    f"({case.get('right', 'list')}) is typed "
                    f"{c['dt']}; promoting the left dtype by every appended value gives {[k, nl]}")
        return None
    if op == "write":
        k, nl = V.infer_closed(case["a"])
        if obs["before"] != [k, nl]:
            return f"infer: {case['a']} typed {obs['before']}, rule says {[k, nl]}"
        for x in case["vals"]:
            if x[0] == "N":
                nl = True
            else:
                k = V.join_kind(k, V.tag_kind(x))
        c = obs["cols"][0]
        if c["dt"] != [k, nl]:
            return (f"callsite-write: {case['a']} written at {case['pos']} ({case['form']}) with {case['vals']} is typed "
                    f"{c['dt']}; promoting {obs['before']} by every written value gives {[k, nl]}")
        return None
    for j, c in enumerate(obs["cols"]):
        if any(t[0] == "?" for t in c["vals"]) or (c["dt"] is None and not c["vals"]):
            continue
        want = V.infer_closed(c["vals"])
        if c["dt"] != want:
            return f"callsite-{op}: result column {j} holds {c['vals']} but is typed {c['dt']}, rule says {want}"
    return None


def nontrivial(case, obs):
    op = case["op"]
    if "skip" in obs:
        return False
    if op in ("promote", "validate"):
        return case["v"][0] == "N" or V.tag_kind(case["v"]) != case["d"][0]
    if op in ("infer", "vector"):
        l = case["l"]
        ks = {V.tag_kind(t) for t in l if t[0] != "N"}
        return len(ks) >= 2 or any(t[0] == "N" for t in l[:-1])
    return True


def describe(case, obs, stream):
    if "skip" in obs:
        return [f"{stream}:skipped"]
    if "exc" in obs:
        return [f"{stream}:exc"]
    if case["op"] in ("infer", "vector"):
        return [f"{stream}:len{min(len(case['l']), 7)}"]
    if case["op"] in ("arith",):
        return [f"{stream}:arith-{case['form']}"]
    return [f"{stream}:{case['op']}"]


def shrink(case):
    if case["op"] in ("infer", "vector"):
        l = case["l"]
        for i in range(len(l)):
            yield dict(case, l=l[:i] + l[i + 1:])
    elif case["op"] == "arith" and case["form"] != "scalar":
        for i in range(len(case["a"])):
            yield dict(case, a=case["a"][:i] + case["a"][i + 1:], b=case["b"][:i] + case["b"][i + 1:])


def neighbours(case, rng):
    out = []
    if case["op"] in ("promote", "validate"):
        v = case["v"]
        for other in REPS[:12]:
            out.append({"op": "infer", "l": [v, other]})
            out.append({"op": "infer", "l": [other, v]})
            out.append({"op": "vector", "l": [other, v, other]})
    elif case["op"] in ("infer", "vector"):
        l = case["l"]
        for _ in range(20):
            p = l[:]
            rng.shuffle(p)
            out.append({"op": "infer", "l": p})
            out.append({"op": "vector", "l": p + p})
    return out
