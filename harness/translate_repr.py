"""harness/translate_repr.py — fail-closed translator of display.py's BUDGET code (GenRepr.v): which rows of a column and
which columns of a table a repr shows.

Three fragments are located and translated; everything around them (formatting, alignment, headers, footer) stays with the
hand-written model Model/Repr.v and C20's correspondence check:
  _format_column   `if max_preview is None: max_preview = _REPR_ROWS_DEFAULT // 2` (the default: an int expression of the global
                   limit), then the statements from `vals = col._underlying` up to (not including) `out = []`: the preview list
  _repr_table      `max_preview = tbl._repr_rows // 2` under the table's own limit; `truncated = ...` and the `if truncated:`
                   that sets `col_indices`
  MAX_HEAD_COLS    a module-level int literal
The language accepted (anything else is a TranslationError; local names are free):
  int expr    n | name | e * e | e + e | e - e | -e | e // e | max(e, e) | min(e, e) | len(L)
  test        e > e | e >= e | e < e | e <= e | e == e | e != e | <int name> (truthiness: != 0) | not t
  list expr   name | list(L) | L + L | [] | [_ROW_GAP] | L[:e] | L[e:] | L[e:e] | list(range(e)) | range(e, e) | L if t else L
  statements  name = expr | if t: <assignments> else: <assignments>   (both branches assign the same names)
Values are Python ints (Z) and lists; rows are `Some row`, the gap marker `_ROW_GAP` is `None` (it is a private object the
code compares by identity only: checked - `_ROW_GAP = object()` at module level, never re-bound).  Slices follow Python's
clamping rule (GenRepr's slice_to / slice_from / norm)."""
import ast
from pathlib import Path


class TranslationError(Exception):           # the same shape as harness.translate.TranslationError (caught there by name)
    def __init__(self, file, lineno, what):
        self.file, self.lineno, self.what = str(file), lineno, what
        super().__init__(f"{Path(str(file)).name}:{lineno}: {what}")


PRELUDE = r"""From Coq Require Import List ZArith Bool.
Import ListNotations.
Open Scope Z_scope.

Section Lists.
Context {T : Type}.
Definition zlen (l : list T) : Z := Z.of_nat (length l).
(* Python's clamping of a slice bound k on a list of length n *)
Definition norm (k : Z) (l : list T) : nat := Z.to_nat (if k <? 0 then Z.max 0 (zlen l + k) else Z.min k (zlen l)).
Definition slice_to (k : Z) (l : list T) : list T := firstn (norm k l) l.                    (* l[:k] *)
Definition slice_from (k : Z) (l : list T) : list T := skipn (norm k l) l.                   (* l[k:] *)
Definition slice_between (a b : Z) (l : list T) : list T := skipn (norm a l) (firstn (norm b l) l).   (* l[a:b] *)
End Lists.
Definition zrange (a b : Z) : list Z := map (fun i => a + Z.of_nat i) (seq 0 (Z.to_nat (b - a))).   (* list(range(a, b)) *)

"""


def _is_doc(s):
    return isinstance(s, ast.Expr) and isinstance(s.value, ast.Constant) and isinstance(s.value.value, str)


class Tr:
    def __init__(self, path, fname, ints, lists, consts):
        self.path, self.fname = path, fname
        self.ty = {**{n: "Z" for n in ints}, **{n: "L" for n in lists}}
        self.consts = consts

    def err(self, node, what):
        return TranslationError(self.path, getattr(node, "lineno", 0), f"{self.fname}: {what}")

    def nm(self, x):
        return "py_" + x

    def int_e(self, e):
        if isinstance(e, ast.Constant) and type(e.value) is int:
            return f"({e.value})" if e.value < 0 else str(e.value)
        if isinstance(e, ast.Name):
            if e.id in self.consts:
                return e.id
            if self.ty.get(e.id) == "Z":
                return self.nm(e.id)
            raise self.err(e, f"`{e.id}` is not an int in scope")
        if isinstance(e, ast.BinOp) and isinstance(e.op, (ast.Mult, ast.Add, ast.Sub, ast.FloorDiv)):
            op = {ast.Mult: "*", ast.Add: "+", ast.Sub: "-", ast.FloorDiv: "/"}[type(e.op)]     # Z.div is floor division
            return f"({self.int_e(e.left)} {op} {self.int_e(e.right)})"
        if isinstance(e, ast.UnaryOp) and isinstance(e.op, ast.USub):
            return f"(- {self.int_e(e.operand)})"
        if isinstance(e, ast.Call) and isinstance(e.func, ast.Name) and not e.keywords:
            if e.func.id in ("max", "min") and len(e.args) == 2:
                return f"(Z.{e.func.id} {self.int_e(e.args[0])} {self.int_e(e.args[1])})"
            if e.func.id == "len" and len(e.args) == 1:
                return f"(zlen {self.list_e(e.args[0])})"
        raise self.err(e, f"int expression `{ast.unparse(e)}`")

    def test(self, t):
        if isinstance(t, ast.Compare) and len(t.ops) == 1:
            a, b = self.int_e(t.left), self.int_e(t.comparators[0])
            op = type(t.ops[0])
            if op is ast.Gt:
                return f"({a} >? {b})"
            if op is ast.GtE:
                return f"({a} >=? {b})"
            if op is ast.Lt:
                return f"({a} <? {b})"
            if op is ast.LtE:
                return f"({a} <=? {b})"
            if op is ast.Eq:
                return f"({a} =? {b})"
            if op is ast.NotEq:
                return f"(negb ({a} =? {b}))"
        if isinstance(t, ast.UnaryOp) and isinstance(t.op, ast.Not):
            return f"(negb {self.test(t.operand)})"
        if isinstance(t, ast.Name) and self.ty.get(t.id) == "Z":
            return f"(negb ({self.nm(t.id)} =? 0))"                      # truthiness of an int
        if isinstance(t, ast.Name) and self.ty.get(t.id) == "B":
            return self.nm(t.id)
        raise self.err(t, f"test `{ast.unparse(t)}`")

    def list_e(self, e):
        if isinstance(e, ast.Name):
            if self.ty.get(e.id) in ("L", "LZ"):
                return self.nm(e.id)
            raise self.err(e, f"`{e.id}` is not a list in scope")
        if isinstance(e, ast.List):
            if not e.elts:
                return "[]"
            if len(e.elts) == 1 and isinstance(e.elts[0], ast.Name) and e.elts[0].id == "_ROW_GAP":
                return "[None]"
            raise self.err(e, f"list display `{ast.unparse(e)}`")
        if isinstance(e, ast.BinOp) and isinstance(e.op, ast.Add):
            return f"({self.list_e(e.left)} ++ {self.list_e(e.right)})"
        if isinstance(e, ast.IfExp):
            return f"(if {self.test(e.test)} then {self.list_e(e.body)} else {self.list_e(e.orelse)})"
        if isinstance(e, ast.Call) and isinstance(e.func, ast.Name) and not e.keywords and len(e.args) == 1 and e.func.id == "list":
            a = e.args[0]
            if isinstance(a, ast.Call) and isinstance(a.func, ast.Name) and a.func.id == "range" and not a.keywords:
                if len(a.args) == 1:
                    return f"(zrange 0 {self.int_e(a.args[0])})"
                if len(a.args) == 2:
                    return f"(zrange {self.int_e(a.args[0])} {self.int_e(a.args[1])})"
                raise self.err(a, "range with a step")
            return self.list_e(a)                                        # list(L): a copy
        if isinstance(e, ast.Subscript) and isinstance(e.slice, ast.Slice) and e.slice.step is None:
            base, lo, hi = self.list_e(e.value), e.slice.lower, e.slice.upper
            if lo is None and hi is not None:
                return f"(slice_to {self.int_e(hi)} {base})"
            if lo is not None and hi is None:
                return f"(slice_from {self.int_e(lo)} {base})"
            if lo is not None and hi is not None:
                return f"(slice_between {self.int_e(lo)} {self.int_e(hi)} {base})"
            return base
        raise self.err(e, f"list expression `{ast.unparse(e)}`")

    def kind_of(self, e):
        """Z / B / L / LZ of an expression (by trying)"""
        if isinstance(e, ast.Compare) or (isinstance(e, ast.UnaryOp) and isinstance(e.op, ast.Not)):
            return "B", self.test(e)
        try:
            return "Z", self.int_e(e)
        except TranslationError:
            pass
        txt = self.list_e(e)
        return ("LZ" if "zrange" in txt else "L"), txt

    def assigns(self, stmts):
        """[(name, kind, text)] of a block of plain assignments"""
        out = []
        for s in stmts:
            if _is_doc(s):
                continue
            if not (isinstance(s, ast.Assign) and len(s.targets) == 1 and isinstance(s.targets[0], ast.Name)):
                raise self.err(s, f"only `name = expr` is accepted here, found `{ast.unparse(s).splitlines()[0][:60]}`")
            k, txt = self.kind_of(s.value)
            out.append((s.targets[0].id, k, txt))
            self.ty[s.targets[0].id] = k
        return out

    def block(self, stmts, result, ind="  "):
        """statements -> nested lets ending in the tuple / name `result`"""
        stmts = [s for s in stmts if not _is_doc(s)]
        if not stmts:
            return ind + result + "\n"
        s, rest = stmts[0], stmts[1:]
        if isinstance(s, ast.Assign):
            (n, k, txt), = self.assigns([s])
            return f"{ind}let {self.nm(n)} := {txt} in\n" + self.block(rest, result, ind)
        if isinstance(s, ast.If) and s.orelse:
            t = self.test(s.test)
            saved = dict(self.ty)
            a = self.assigns(s.body)
            ty_a = dict(self.ty)
            self.ty = dict(saved)
            b = self.assigns(s.orelse)
            names = sorted({n for n, _, _ in a} & {n for n, _, _ in b})
            if not names:
                raise self.err(s, "the two branches of the `if` assign no common name")
            for n in names:
                if ty_a[n] != self.ty[n]:
                    raise self.err(s, f"`{n}` is a {ty_a[n]} in one branch and a {self.ty[n]} in the other")

            def br(asg):
                return "".join(f"let {self.nm(n)} := {txt} in " for n, _, txt in asg) + "(" + ", ".join(self.nm(n) for n in names) + ")"
            self.ty = {**saved, **{n: ty_a[n] for n in names}}
            pat = self.nm(names[0]) if len(names) == 1 else "'(" + ", ".join(self.nm(n) for n in names) + ")"
            return f"{ind}let {pat} := if {t} then {br(a)} else {br(b)} in\n" + self.block(rest, result, ind)
        raise self.err(s, f"statement `{ast.unparse(s).splitlines()[0][:70]}`")


def translate_repr(src: Path):
    path = src / "display.py"
    tree = ast.parse(path.read_text(), filename=str(path))
    E = lambda ln, what: TranslationError(path, ln, what)   # noqa: E731
    top = {}
    for n in tree.body:
        if isinstance(n, ast.Assign) and len(n.targets) == 1 and isinstance(n.targets[0], ast.Name):
            top.setdefault(n.targets[0].id, []).append(n)
    for must in ("_ROW_GAP", "MAX_HEAD_COLS", "_REPR_ROWS_DEFAULT"):
        if len(top.get(must, [])) != 1:
            raise E(0, f"module level: exactly one assignment of {must} is expected")
    if ast.unparse(top["_ROW_GAP"][0].value) != "object()":
        raise E(top["_ROW_GAP"][0].lineno, "_ROW_GAP must be a private `object()`")
    mhc = top["MAX_HEAD_COLS"][0].value
    if not (isinstance(mhc, ast.Constant) and type(mhc.value) is int and 0 <= mhc.value <= 1000):
        raise E(top["MAX_HEAD_COLS"][0].lineno, "MAX_HEAD_COLS must be a small int literal")
    for n in ast.walk(tree):
        if isinstance(n, ast.Name) and n.id in ("_ROW_GAP", "MAX_HEAD_COLS", "len", "max", "min", "list", "range") and isinstance(n.ctx, ast.Store) \
                and n not in (top["_ROW_GAP"][0].targets[0], top["MAX_HEAD_COLS"][0].targets[0]):
            raise E(n.lineno, f"`{n.id}` is re-bound")
        if isinstance(n, ast.Global) and any(x in ("_ROW_GAP", "MAX_HEAD_COLS") for x in n.names):
            raise E(n.lineno, "global re-binding of a display constant")
    fns = {n.name: n for n in tree.body if isinstance(n, ast.FunctionDef)}
    for f in ("_format_column", "_repr_table"):
        if f not in fns or fns[f].decorator_list:
            raise E(0, f"{f}: no plain definition")
    notes, lines = [], {}

    # ---- _format_column ----------------------------------------------------------------------------------------------
    F = fns["_format_column"]
    a = F.args
    if [x.arg for x in a.args] != ["col", "max_preview"] or a.vararg or a.kwarg or a.kwonlyargs or len(a.defaults) != 1 \
            or not (isinstance(a.defaults[0], ast.Constant) and a.defaults[0].value is None):
        raise E(F.lineno, "_format_column: parameters are not (col, max_preview=None)")
    body = [s for s in F.body if not _is_doc(s)]
    if not (body and isinstance(body[0], ast.If) and ast.unparse(body[0].test) == "max_preview is None" and not body[0].orelse
            and len(body[0].body) == 1 and isinstance(body[0].body[0], ast.Assign) and ast.unparse(body[0].body[0].targets[0]) == "max_preview"):
        raise E(F.lineno, "_format_column must start with `if max_preview is None: max_preview = <default>`")
    tr = Tr(path, "_format_column", ["_REPR_ROWS_DEFAULT"], [], {"MAX_HEAD_COLS"})
    default = tr.int_e(body[0].body[0].value)
    stop = next((i for i, s in enumerate(body) if ast.unparse(s) == "out = []"), None)
    if stop is None or stop < 2 or ast.unparse(body[1]) != "vals = col._underlying":
        raise E(F.lineno, "_format_column: the preview code must run from `vals = col._underlying` to `out = []`")
    rest = body[stop:]
    if not (len(rest) >= 2 and isinstance(rest[1], ast.For) and ast.unparse(rest[1].iter) == "preview"
            and isinstance(rest[1].body[0], ast.If) and ast.unparse(rest[1].body[0].test) == f"{ast.unparse(rest[1].target)} is _ROW_GAP"):
        raise E(rest[0].lineno, "_format_column: after `out = []` the loop `for v in preview:` must first test `v is _ROW_GAP`")
    for s in rest:
        for n in ast.walk(s):
            if isinstance(n, ast.Name) and n.id == "preview" and isinstance(n.ctx, ast.Store):
                raise E(n.lineno, "_format_column: `preview` is re-bound after the budget code")
    tr = Tr(path, "_format_column", ["max_preview"], ["vals"], {"MAX_HEAD_COLS"})
    prev = tr.block(body[2:stop], "py_preview")
    if tr.ty.get("preview") != "L":
        raise E(F.lineno, "_format_column: the budget code does not define the list `preview`")
    lines["preview_rows"] = [body[1].lineno, body[stop].lineno]
    text = (f"(* display.py:{body[0].lineno} the default of _format_column's max_preview *)\n"
            f"Definition default_max_preview (py__REPR_ROWS_DEFAULT : Z) : Z := {default}.\n\n"
            f"(* display.py:{body[1].lineno}-{body[stop].lineno - 1} _format_column: the rows shown (None = the gap marker _ROW_GAP) *)\n"
            "Definition preview_rows {A : Type} (py_max_preview : Z) (col_values : list A) : list (option A) :=\n"
            "  let py_vals := map Some col_values in\n" + prev.rstrip("\n") + ".\n\n")

    # ---- _repr_table -------------------------------------------------------------------------------------------------
    G = fns["_repr_table"]
    gb = [s for s in G.body if not _is_doc(s)]
    own = [s for s in gb if isinstance(s, ast.If) and "_repr_rows" in ast.unparse(s.test)]
    if len(own) != 1 or own[0].orelse or len(own[0].body) != 1 or ast.unparse(own[0].test) != "hasattr(tbl, '_repr_rows') and tbl._repr_rows is not None" \
            or not isinstance(own[0].body[0], ast.Assign) or ast.unparse(own[0].body[0].targets[0]) != "max_preview":
        raise E(G.lineno, "_repr_table: the table's own limit must be read by `if hasattr(tbl, '_repr_rows') and tbl._repr_rows is not None: max_preview = ...`")
    src_expr = own[0].body[0].value
    tr = Tr(path, "_repr_table", ["py_own_limit"], [], {"MAX_HEAD_COLS"})

    class Sub(ast.NodeTransformer):
        def visit_Attribute(self, n):
            if ast.unparse(n) == "tbl._repr_rows":
                return ast.copy_location(ast.Name(id="py_own_limit", ctx=ast.Load()), n)
            return n
    tr.nm = lambda x: x if x == "py_own_limit" else "py_" + x
    own_txt = tr.int_e(Sub().visit(src_expr))
    if not any(isinstance(s, ast.Assign) and ast.unparse(s) == "max_preview = None" for s in gb[:gb.index(own[0])]):
        raise E(own[0].lineno, "_repr_table: `max_preview = None` must precede the table's own limit")
    if not any(ast.unparse(s).replace(" ", "") == "formatted_cols=[_format_column(cols[i],max_preview=max_preview)foriincol_indices]" for s in gb):
        raise E(G.lineno, "_repr_table: `formatted_cols = [_format_column(cols[i], max_preview=max_preview) for i in col_indices]` is expected")
    i0 = next((i for i, s in enumerate(gb) if isinstance(s, ast.Assign) and ast.unparse(s.targets[0]) == "truncated"), None)
    if i0 is None or ast.unparse(gb[i0 - 2] if i0 >= 2 else gb[0]) != "num_cols = len(cols)" and not any(ast.unparse(s) == "num_cols = len(cols)" for s in gb[:i0]):
        raise E(G.lineno, "_repr_table: `num_cols = len(cols)` then `truncated = ...` are expected")
    if not (i0 + 1 < len(gb) and isinstance(gb[i0 + 1], ast.If) and ast.unparse(gb[i0 + 1].test) == "truncated"):
        raise E(gb[i0].lineno, "_repr_table: `if truncated:` must follow the assignment of `truncated`")
    tr = Tr(path, "_repr_table", ["num_cols"], [], {"MAX_HEAD_COLS"})
    ci = tr.block(gb[i0:i0 + 2], "(py_truncated, py_col_indices)")
    if tr.ty.get("col_indices") != "LZ" or tr.ty.get("truncated") != "B":
        raise E(gb[i0].lineno, "_repr_table: the column budget must define the bool `truncated` and the index list `col_indices`")
    for s in gb[i0 + 2:]:
        for n in ast.walk(s):
            if isinstance(n, ast.Name) and n.id in ("col_indices", "truncated") and isinstance(n.ctx, ast.Store):
                raise E(n.lineno, f"_repr_table: `{n.id}` is re-bound after the budget code")
    lines["col_indices"] = [gb[i0].lineno, gb[i0 + 1].end_lineno]
    text += (f"(* display.py:{own[0].lineno} _repr_table: max_preview under the table's own limit *)\n"
             f"Definition own_max_preview (py_own_limit : Z) : Z := {own_txt}.\n\n"
             f"(* display.py:{gb[i0].lineno}-{gb[i0 + 1].end_lineno} _repr_table: the columns shown *)\n"
             "Definition col_indices (py_num_cols : Z) : bool * list Z :=\n" + ci.rstrip("\n") + ".\n")
    notes.append("budget code of display.py (see harness/translate_repr.py): ints are Z, `//` is Z.div (floor), slices clamp as Python's, "
                 "_ROW_GAP is None among `Some row`s")
    head = ("(* GenRepr.v — GENERATED by harness/translate_repr.py from display.py; do not edit.\n"
            + "".join(f"   {n}\n" for n in notes).replace("*)", "* )") + "*)\n" + PRELUDE
            + f"Definition MAX_HEAD_COLS : Z := {mhc.value}.\n\n")
    return head + text, {"lines": lines, "notes": notes}


if __name__ == "__main__":
    import sys
    t, m = translate_repr(Path(sys.argv[1] if len(sys.argv) > 1 else "/repo/src/serif"))
    print(t)
