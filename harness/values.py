"""Tagged JSON encodings of Python scalars, shared by generators (which build tags),
the implementation-side observers (which decode tags to real objects and encode results
back) and the Coq emitters (which map tags to the model's value abstraction).

Tag forms (JSON lists):
  ["N"] None            ["b", bool]        ["i", int]            ["f", float.hex()]
  ["c", rehex, imhex]   ["s", str]         ["y", hex bytes]      ["d", ordinal]
  ["dt", ordinal, secs] ["F", hex]  class F(float) instance      ["S", str] class S(str)
  ["IE", int] IntEnum member   ["I2", int] class I2(int)         ["DT2", ord, secs] datetime subclass
  ["Dec", "1.5"] Decimal  ["Fr", n, d] Fraction  ["td", days] timedelta
  ["U1", id] / ["U2", id] user classes   ["O"] object()   ["NC", word] non-commutative arithmetic
  ["l", [tags]] list   ["t", [tags]] tuple   ["D", [[k, v], ...]] dict   ["?", repr] unknown
"""
import datetime as _dt
import decimal
import enum
import fractions
import math


class F(float):
    pass


class S(str):
    pass


class I2(int):
    pass


class IE(enum.IntEnum):
    A = 1
    B = 2
    C = 3
    D = 7


class DT2(_dt.datetime):
    pass


class U1:
    def __init__(self, i=0):
        self.i = i

    def __eq__(self, o):
        return type(o) is U1 and o.i == self.i

    def __hash__(self):
        return hash(("U1", self.i))

    def __repr__(self):
        return f"U1({self.i})"


class U1b(U1):
    """a subclass of a user class: its instances are typed by their OWN class - mixed with instances of the base they
    make an object column, in either order (inference is order-independent)"""
    def __eq__(self, o):
        return type(o) is U1b and o.i == self.i

    def __hash__(self):
        return hash(("U1b", self.i))

    def __repr__(self):
        return f"U1b({self.i})"


class U2:
    def __init__(self, i=0):
        self.i = i

    def __eq__(self, o):
        return type(o) is U2 and o.i == self.i

    def __hash__(self):
        return hash(("U2", self.i))

    def __repr__(self):
        return f"U2({self.i})"


class NC:
    """A value whose arithmetic is NOT commutative: every operator builds the word
    "(left<op>right)", so a swapped operand order is visible in the result (C05).
    Tag ["NC", word]."""

    def __init__(self, w):
        self.w = str(w)

    @staticmethod
    def _word(o):
        return o.w if isinstance(o, NC) else repr(o)

    def _mk(sym):                                            # noqa: N805
        def fwd(self, o):
            if not isinstance(o, (NC, int)):
                return NotImplemented
            return NC(f"({self.w}{sym}{NC._word(o)})")

        def rev(self, o):
            if not isinstance(o, (NC, int)):
                return NotImplemented
            return NC(f"({NC._word(o)}{sym}{self.w})")
        return fwd, rev

    __add__, __radd__ = _mk("+")
    __sub__, __rsub__ = _mk("-")
    __mul__, __rmul__ = _mk("*")
    __truediv__, __rtruediv__ = _mk("/")
    __floordiv__, __rfloordiv__ = _mk("//")
    __mod__, __rmod__ = _mk("%")
    __pow__, __rpow__ = _mk("**")

    def __neg__(self):
        return NC(f"(-{self.w})")

    def __pos__(self):
        return NC(f"(+{self.w})")

    def __abs__(self):
        return NC(f"|{self.w}|")

    def __eq__(self, o):
        return type(o) is NC and o.w == self.w

    def __hash__(self):
        return hash(("NC", self.w))

    def __repr__(self):
        return f"NC({self.w!r})"


def dec(t):
    k = t[0]
    if k == "NC":
        return NC(t[1])
    if k == "N":
        return None
    if k == "b":
        return bool(t[1])
    if k == "i":
        return int(t[1])
    if k == "f":
        return float.fromhex(t[1])
    if k == "c":
        return complex(float.fromhex(t[1]), float.fromhex(t[2]))
    if k == "s":
        return t[1]
    if k == "y":
        return bytes.fromhex(t[1])
    if k == "d":
        return _dt.date.fromordinal(t[1])
    if k == "dt":
        return _dt.datetime.combine(_dt.date.fromordinal(t[1]), _dt.time()) + _dt.timedelta(seconds=t[2])
    if k == "F":
        return F(float.fromhex(t[1]))
    if k == "S":
        return S(t[1])
    if k == "IE":
        return IE(t[1])
    if k == "I2":
        return I2(t[1])
    if k == "DT2":
        base = _dt.datetime.combine(_dt.date.fromordinal(t[1]), _dt.time()) + _dt.timedelta(seconds=t[2])
        return DT2(base.year, base.month, base.day, base.hour, base.minute, base.second)
    if k == "Dec":
        return decimal.Decimal(t[1])
    if k == "Fr":
        return fractions.Fraction(t[1], t[2])
    if k == "td":
        return _dt.timedelta(days=t[1])
    if k == "U1":
        return U1(t[1] if len(t) > 1 else 0)
    if k == "U2":
        return U2(t[1] if len(t) > 1 else 0)
    if k == "U1b":
        return U1b(t[1] if len(t) > 1 else 0)
    if k == "O":
        return object()
    if k == "l":
        return [dec(x) for x in t[1]]
    if k == "t":
        return tuple(dec(x) for x in t[1])
    if k == "D":
        return {dec(a): dec(b) for a, b in t[1]}
    raise ValueError(f"bad tag {t!r}")


def enc(x):
    """Python object -> tag (exact type first, so subclasses keep their own tag)."""
    if x is None:
        return ["N"]
    ty = type(x)
    if ty is bool:
        return ["b", x]
    if ty is int:
        return ["i", x]
    if ty is float:
        return ["f", x.hex()]
    if ty is complex:
        return ["c", x.real.hex(), x.imag.hex()]
    if ty is str:
        return ["s", x]
    if ty is bytes:
        return ["y", x.hex()]
    if ty is _dt.date:
        return ["d", x.toordinal()]
    if ty is _dt.datetime:
        return ["dt", x.toordinal(), x.hour * 3600 + x.minute * 60 + x.second]
    if ty is F:
        return ["F", float(x).hex()]
    if ty is S:
        return ["S", str(x)]
    if ty is IE:
        return ["IE", int(x)]
    if ty is I2:
        return ["I2", int(x)]
    if ty is DT2:
        return ["DT2", x.toordinal(), x.hour * 3600 + x.minute * 60 + x.second]
    if ty is decimal.Decimal:
        return ["Dec", str(x)]
    if ty is fractions.Fraction:
        return ["Fr", x.numerator, x.denominator]
    if ty is _dt.timedelta:
        return ["td", x.days]
    if ty is U1:
        return ["U1", x.i]
    if ty is U2:
        return ["U2", x.i]
    if ty is U1b:
        return ["U1b", x.i]
    if ty is object:
        return ["O"]
    if ty is NC:
        return ["NC", x.w]
    if ty is list:
        return ["l", [enc(e) for e in x]]
    if ty is tuple:
        return ["t", [enc(e) for e in x]]
    if ty is dict:
        return ["D", [[enc(a), enc(b)] for a, b in x.items()]]
    return ["?", f"{ty.__module__}.{ty.__qualname__}", repr(x)[:80]]


# ---- the model's view of a value's class: (kind token, exact?) ---------------------

# kind tokens = constructors of Base/PyVal.kind
_TAG_KIND = {
    "b": ("KBool", True), "i": ("KInt", True), "f": ("KFloat", True), "c": ("KComplex", True),
    "s": ("KStr", True), "y": ("KBytes", True), "d": ("KDate", True), "dt": ("KDateTime", True),
    "F": ("KFloat", False), "S": ("KStr", False), "IE": ("KInt", False), "I2": ("KInt", False),
    "DT2": ("KDateTime", False),
    "l": ("KList", True), "t": ("KTuple", True), "D": ("KDict", True),
    "Dec": ("(KOther 0)", True), "Fr": ("(KOther 1)", True), "td": ("(KOther 2)", True),
    "U1": ("(KOther 3)", True), "U2": ("(KOther 4)", True), "O": ("KObject", True),
    "NC": ("(KOther 5)", True), "U1b": ("(KOther 6)", True),
}


def tag_vinfo(t):
    """tag -> Coq term of type pyv (option vinfo)."""
    if t[0] == "N":
        return "None"
    k, ex = _TAG_KIND[t[0]]
    return f"(Some (mkV {k} {'true' if ex else 'false'}))"


def tag_kind(t):
    return None if t[0] == "N" else _TAG_KIND[t[0]][0]


_KIND_OF_TYPE = None


def kind_token_of_type(ty):
    """Python class (a DataType.kind) -> kind token, or "(KOther 99)" for unknown classes."""
    global _KIND_OF_TYPE
    if _KIND_OF_TYPE is None:
        _KIND_OF_TYPE = {
            bool: "KBool", int: "KInt", float: "KFloat", complex: "KComplex", str: "KStr",
            bytes: "KBytes", _dt.datetime: "KDateTime", _dt.date: "KDate", list: "KList",
            dict: "KDict", tuple: "KTuple", decimal.Decimal: "(KOther 0)",
            fractions.Fraction: "(KOther 1)", _dt.timedelta: "(KOther 2)", U1: "(KOther 3)",
            U2: "(KOther 4)", object: "KObject", NC: "(KOther 5)", U1b: "(KOther 6)",
            # subclasses used as kinds would be a defect; give them their own tokens
            F: "(KOther 10)", S: "(KOther 11)", IE: "(KOther 12)", I2: "(KOther 13)", DT2: "(KOther 14)",
        }
    return _KIND_OF_TYPE.get(ty, "(KOther 99)")


def schema_obs(dt):
    """DataType or None -> JSON observation [kind token, nullable] / None."""
    if dt is None:
        return None
    return [kind_token_of_type(dt.kind), bool(dt.nullable)]


def coq_dtype(o):
    return f"(mkD {o[0]} {'true' if o[1] else 'false'})"


# ---- Python-side lattice (the oracle's independent statement of the rule) ----------

NUM = ["KBool", "KInt", "KFloat", "KComplex"]
TEMP = ["KDate", "KDateTime"]


def join_kind(a, b):
    if a == b:
        return a
    if a in NUM and b in NUM:
        return NUM[max(NUM.index(a), NUM.index(b))]
    if a in TEMP and b in TEMP:
        return "KDateTime"
    return "KObject"


def infer_closed(tags):
    """[kind token, nullable] the property demands for a sequence of tags."""
    ks = [tag_kind(t) for t in tags if t[0] != "N"]
    has_none = any(t[0] == "N" for t in tags)
    if not ks:
        return ["KObject", True]
    k = ks[0]
    for x in ks[1:]:
        k = join_kind(k, x)
    return [k, has_none]


def belongs(tag, schema):
    """C03 truthfulness of one element against an observed schema [kind, nullable]."""
    if schema is None:
        return False
    if tag[0] == "N":
        return bool(schema[1])
    k = tag_kind(tag)
    s = schema[0]
    return s == "KObject" or join_kind(k, s) == s


def finite(x):
    return not (isinstance(x, float) and (math.isnan(x) or math.isinf(x)))


# ------------------------------------------------------------------ "lived-in" operands
def _as_key(v, n):
    """use v as a row key (mask or index vector) of another vector once"""
    from serif import Vector
    return Vector(list(range(n)))[v]


LIVED_REALISED = [0, 0]      # [vectors with a realised history, fall-backs to a fresh vector] in this process


def lived_in(make, vals, seed):
    """A vector holding exactly `vals`, but one that has a PAST: it is built (by `make`) over the same values
    in another order, every cheap read-only operation is run on it once (whatever they memoise is now
    memoised), and then the values are moved into place by in-place writes.  Every operation of the library is a
    function of the vector's CURRENT contents, so a check may use such a vector wherever it would use a fresh
    one; anything remembered across the writes (a sum, a fingerprint, a sorted copy, a broadcast result keyed
    by the identity of freed storage ...) then shows as a wrong answer.  Falls back to a fresh vector whenever
    the history cannot be realised exactly (dtype conversions on write, refused writes)."""
    import random
    n = len(vals)
    if n < 2:
        return make(list(vals))
    rng = random.Random(seed)
    perm = list(range(n))
    rng.shuffle(perm)
    try:
        start = [vals[p] for p in perm]
        if n >= 3 or (n == 2 and rng.random() < 0.5):
            j, k = rng.sample(range(n), 2)
            start[j] = start[k]          # another MULTISET of values too: a remembered sum / min / count is then wrong
        if rng.random() < 0.4 and any(x is None for x in start) and any(x is not None for x in start):
            stand = next(x for x in start if x is not None)
            start = [stand if x is None else x for x in start]     # no None at first: every None ARRIVES by a write
        v = make(start)
        for probe in (lambda: v.sum(), lambda: v.mean(), lambda: v.min(), lambda: v.max(), lambda: v.stdev(),
                      lambda: v.any(), lambda: v.all(), lambda: v.fingerprint(), lambda: v == v, lambda: v.isna(),
                      lambda: v.dropna(), lambda: v.sort_by(), lambda: v[0:], lambda: -v, lambda: repr(v),
                      lambda: v.real, lambda: v.year, lambda: v.upper(), lambda: v + v, lambda: v.copy(),
                      lambda: _as_key(v, n), lambda: v + 1, lambda: v * 2, lambda: v == 1, lambda: v.fillna(0),
                      lambda: 1 + v):
            try:
                probe()
            except Exception:                                # noqa: BLE001
                pass
        order = list(range(n))
        rng.shuffle(order)
        for i in order:                                      # two passes: every cell is written at least once
            v[i] = vals[i]
        for i in order[: max(1, n // 2)]:
            v[i] = vals[i]
        if rng.random() < 0.5:           # both parities of the write count (freed storage identities alternate)
            v[order[0]] = vals[order[0]]
        got = list(v._underlying)
        if len(got) == n and all(type(a) is type(b) and (a is b or a == b or (a != a and b != b))
                                 for a, b in zip(got, vals)):
            fresh = make(list(vals))
            if repr(v.schema()) == repr(fresh.schema()):
                LIVED_REALISED[0] += 1
                return v
    except Exception:                                        # noqa: BLE001
        pass
    LIVED_REALISED[1] += 1
    return make(list(vals))


def lived_in_table(make, cols, seed, warm=None):
    """Table counterpart of lived_in: `make(cols)` builds a table from a list of value lists; the table first
    holds its rows in another order, `warm(table)` runs whatever should be given the chance to remember something
    (a join, a sort, an aggregate ... - its result is discarded), then every cell is moved into place by in-place
    writes through the live column objects, twice (the storage tuple a memo may be keyed on is freed by the first
    write and its identity handed out again by the second).  Returns (table, realised?)."""
    import random
    n = len(cols[0]) if cols else 0
    if n < 2 or any(len(c) != n for c in cols):
        return make(cols), False
    rng = random.Random(seed)
    perm = list(range(n))
    while perm == list(range(n)):
        rng.shuffle(perm)
    try:
        start = [[c[p] for p in perm] for c in cols]
        if seed % 3 == 0:
            # every column starts with pairwise DIFFERENT cells (repeats replaced by fresh values of the same class): what
            # was seen of the table then - "this key is unique" - is no longer true of its final contents
            for c in start:
                seen, fresh_i = [], 0
                for i, x in enumerate(c):
                    if x is not None and any(type(x) is type(y) and x == y for y in seen) and type(x) in (int, str):
                        while True:
                            fresh_i += 1
                            cand = (max([y for y in c if type(y) is int], default=0) + 1000 + fresh_i) if type(x) is int \
                                else f"{x}~{fresh_i}"
                            if all(cand != y for y in c):
                                break
                        c[i] = cand
                    seen.append(c[i])
        elif n >= 3:
            j, k = rng.sample(range(n), 2)
            for c in start:
                c[j] = c[k]              # a different multiset of rows as well (row k twice, one row missing)
        t = make(start)
        if warm is not None:
            try:
                warm(t)
            except Exception:                                # noqa: BLE001
                pass
        live = t._underlying
        if seed % 3 == 0 or seed % 3 == 1:
            # column by column, an EVEN number of consecutive writes each: CPython hands the storage tuple freed by one write
            # to the next one of the same size, so every column ends at the address it had when the table was looked at
            for j, c in enumerate(cols):
                for _pass in (0, 1):
                    for i in range(n):
                        live[j][i] = c[i]
        else:
            for _pass in (0, 1):
                for j, c in enumerate(cols):
                    for i in range(n):
                        live[j][i] = c[i]
        fresh = make(cols)
        ok = len(t._underlying) == len(fresh._underlying) and all(
            len(a._underlying) == len(b._underlying) and repr(a.schema()) == repr(b.schema())
            and all(type(x) is type(y) and (x is y or x == y or (x != x and y != y))
                    for x, y in zip(a._underlying, b._underlying))
            for a, b in zip(t._underlying, fresh._underlying))
        if ok:
            LIVED_REALISED[0] += 1
            return t, True
    except Exception:                                        # noqa: BLE001
        pass
    LIVED_REALISED[1] += 1
    return make(cols), False
