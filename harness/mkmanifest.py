"""Regenerates /verif/MANIFEST.json from the property modules present in harness/props.
Run: /venv/bin/python -m harness.mkmanifest"""
import importlib
import json
from pathlib import Path

VERIF = Path(__file__).resolve().parent.parent
BASELINE = ("cd /repo && /venv/bin/python -m pytest -ra -q -p no:cacheprovider --timeout=900 "
            "--continue-on-collection-errors")


def main():
    props = [json.loads(l) for l in (VERIF / "properties.jsonl").read_text().splitlines() if l.strip()]
    checks, na, served = [], [], []
    claimed = set((VERIF / "harness" / "claimed.txt").read_text().split())
    for p in props:
        pid = p["id"]
        f = VERIF / "harness" / "props" / f"{pid.lower()}.py"
        if not f.exists() or pid not in claimed:
            na.append({"property_id": pid, "reason": "check not built yet (planned in DESIGN.md section 4); not claimed"})
            continue
        mod = importlib.import_module(f"harness.props.{pid.lower()}")
        if getattr(mod, "NOT_APPLICABLE", None):
            na.append({"property_id": pid, "reason": mod.NOT_APPLICABLE})
            continue
        served.append(pid)
        checks.append({
            "property_id": pid,
            "quick_cmd": f"./check {pid} --tier quick",
            "thorough_cmd": f"./check {pid} --tier thorough",
            "evidence_file": f"/verif/evidence/{pid}.json",
            "replay_cmd_template": f"./check {pid} --replay {{path}}",
            "engine": "rocq-model+correspondence",
            "level_claimed": {
                "category": "proof",
                "text": getattr(mod, "LEVEL_TEXT", "theorems about a hand-written Gallina model, tied to the code by a correspondence check"),
                "design_ref": getattr(mod, "DESIGN_REF", "DESIGN.md section 4"),
            },
            "level_note": getattr(mod, "LEVEL_NOTE",
                                  "Trusted: Coq 8.16.1 kernel and vm_compute; the hand-written model; the harness "
                                  "(generators, observers, term printers). The theorems are about the model; the code "
                                  "is tied to it only by the correspondence check on the inputs explored."),
            "technique": getattr(mod, "TECHNIQUE", "Rocq (Coq 8.16) proof over an executable model + differential correspondence check (vm_compute case files)"),
        })
    man = {
        "version": 1,
        "setup_cmd": "bash /verif/setup.sh",
        "hooks": {
            "guard": "SERIF_VERIF",
            "enable": "no hooks are needed (all properties have hook_needed: null); checks run /repo/src as is with SERIF_VERIF=1 set",
            "baseline_off_cmd": BASELINE,
            "source_commits": [],
            "add_only": True,
        },
        "engines": [
            {"name": "rocq-model+correspondence", "path": "/verif/coq", "serves_properties": served,
             "kind_free_text": "Coq 8.16.1 development (Base/Spec/Model/Proofs/Props/Corr) + Python harness that "
                               "runs /repo's current tree and evaluates generated case files inside coqc"},
        ],
        "checks": checks,
        "notes": "See DESIGN.md. Known findings and fixed defects: /verif/known_findings.json.",
        "not_applicable": na,
    }
    (VERIF / "MANIFEST.json").write_text(json.dumps(man, indent=1) + "\n")
    print(f"{len(checks)} checks, {len(na)} not applicable")


if __name__ == "__main__":
    main()
