"""Regenerates /verif/MANIFEST.json from the property modules present in harness/props.
Run: /venv/bin/python -m harness.mkmanifest"""
import importlib
import json
from pathlib import Path

VERIF = Path(__file__).resolve().parent.parent
BASELINE = ("cd /repo && /venv/bin/python -m pytest -ra -q -p no:cacheprovider --timeout=900 "
            "--continue-on-collection-errors")


CORR = ("tied to /repo's current tree on every run by a correspondence check: the model's executable definitions are evaluated "
        "inside coqc (vm_compute) on the same generated inputs / histories the implementation ran, and an independent Python "
        "oracle states the property on the implementation's behaviour")
TR = ("; additionally the small decision kernels are REGENERATED from the Python source by a fail-closed translator and "
      "re-proved equal to the model on every run ({})")
TRUST = ("Trusted: the Coq 8.16.1 kernel and vm_compute (no native_compute, no extraction, no axioms: every theorem prints "
         "'Closed under the global context'); the hand-written model (the theorems are about the model; the code is tied to it by "
         "the correspondence check on the inputs explored{}); the harness (generators, observers that read serif's private "
         "attributes, term printers, oracle). ")
TEXTS = {
 "C01": ("theorems (all finite histories over any number of live objects, by induction over the operation list of the heap model): "
         "a write through a handle changes only that object and the table holding it (frame), producers change no existing object, a "
         "refused or failed vector write changes nothing, columns belong to exactly one table; " + CORR + " after EVERY step of random "
         "and planted histories (state-level refinement: values, names, dtypes, storage identities, registry, memos)"
         + TR.format("alias_tracker.py by state passing - EqAlias.v, 9 theorems: a refinement of the model's registry for every liveness predicate"),
         TRUST.format(" and the translator") + "Rows are views, checked by the oracle (held rows) only; element values are None / ints / integral floats.",
         "Rocq proof: ownership + frame invariants by induction over histories of an executable heap model; state-level refinement check against the implementation"),
 "C02": ("theorems (all histories of the heap model): every table stays rectangular under every operation, failed ones included; ragged "
         "input is refused; cells of every new table (copy / selection / stacking / row append) are those of its sources; row views = "
         "column views; transposing twice gives back the cells; " + CORR + ", plus pure-oracle streams for row append with cells of every "
         "scalar kind and for every way of constructing a table from columns of equal or unequal lengths"
         + TR.format("the rectangularity guards of Vector.__new__, Table.__init__ and Table.__setattr__ over column lengths - EqRect.v, 7 theorems: "
                     "the constructor refuses exactly the ragged inputs, the dispatch never hands it any, an accepted replacement keeps the table rectangular"),
         TRUST.format(" and the translator") + "The rowappend / construct streams are decided by the oracle alone (the model says nothing about bytes cells).",
         "Rocq proof: rectangularity invariant and cell theorems over the heap model; the length guards regenerated from source and re-proved; refinement check + oracle streams"),
 "C03": ("theorems (all vectors, all programs over a 23-operation alphabet, by induction): vectors typed by inference are truthful; every "
         "operation that does not re-infer (setitem/promotion, unary, <<, >>, cast, fillna, dropna, copy(new_values), to_object, new, "
         "getitem, sort, rows, transposes) preserves truthfulness; write-back of any element is accepted and keeps the dtype, and "
         "conversely; reachable_truthful at full strength; " + CORR + "; a GLOBAL MONITOR (installed in the implementation subprocess "
         "only) checks every vector returned or mutated while the case streams of all 19 other modules run"
         + TR.format("infer_dtype, promote_with, validate_scalar - EqTyping.v Part 3, 5 C03 theorems on top of the 22 it shares with C04: the "
                     "inferred dtype holds every element, promotion covers the new value and keeps every member"),
         TRUST.format(" and the translator") + "Hypothesis conv_ok: int()/float()/complex()/datetime.combine return an instance of exactly that class.",
         "Rocq proof: truthfulness invariant by induction over programs; typing kernels regenerated from source; correspondence + global run-time monitor over all other checks' streams"),
 "C04": ("theorems (all sequences, all (dtype, value) pairs): the inferred dtype depends only on the set of classes present and on whether "
         "None occurs (order, position of None, repetition are irrelevant), closed form = least upper bound in the kind lattice; promotion "
         "never narrows, keeps nullability, is idempotent and commutes; " + CORR + " - EXHAUSTIVE on the step functions (26 dtypes x 25 "
         "value classes, all sequences up to length 3) plus call-site streams (arithmetic incl. kind-leaving operators, joins, aggregates, CSV)"
         + TR.format("typing.py: promote_with, infer_kind, infer_dtype, validate_scalar - EqTyping.v, 20 theorems incl. the C04 theorems restated for the generated definitions"),
         TRUST.format(" and the translator") + "Value abstraction: a value is seen through (base kind, exact class?).",
         "Rocq proof of lattice laws over a model that is also regenerated from typing.py by a translator (equality re-proved each run); exhaustive correspondence on the finite kernel"),
 "C05": ("theorems (for every scalar operation, all lengths): the i-th element of every binary / reflected / unary result is the scalar "
         "operation on the i-th operands in the written order; unequal lengths are an error; table arithmetic is the column-wise map / zip; "
         "broadcast methods apply per element with None staying None; dates + days; " + CORR + " (scalar results computed by Python and "
         "shipped as lookup tables; every public attribute of str/int/float/bool/date/datetime; equal-but-distinguishable elements; "
         "read-write-write-read histories; operands with a past)" + TR.format("vector.py / table.py: which operator and operand order each arithmetic dunder uses - EqDispatch.v, 7 theorems"),
         TRUST.format(" and the translator") + "Scalar semantics are parameters (Section variables), never modelled.",
         "Rocq proof parametric in the scalar operation; dispatch table regenerated from source and re-proved; differential correspondence with Python's own scalar results"),
 "C06": ("theorems (all vectors, all None placements): None propagates through every elementwise operation and never raises, comparisons are "
         "False at None positions with a non-nullable bool result, every reduction is the function of the None-free list (with the empty "
         "results), len counts None, dropna = select(not isna), fillna replaces exactly the None positions, both report non-nullable; " + CORR
         + " - exhaustive over None placements of lengths 0..5 for every dtype (plus declared / assigned-None / lost-None / lived-in / "
         "join-made / promoted-in-place vectors; per-group aggregates against Python's reduction of each group's None-free values)"
         + TR.format("vector.py Vector.max/min/sum/all/any/mean/stdev and the per-group functions of Table.aggregate / Table.window - "
                     "EqReduce.v, 13 theorems: every generated reduction is a function of the None-free cells for ALL instantiations of "
                     "Python's builtins, = the C06 model and = the property's statement; Vector.isna / dropna - EqNa.v, 4 theorems"),
         TRUST.format(" and the translator") + "mean/stdev arithmetic on floats is a parameter compared with a tolerance.",
         "Rocq proof over the None-handling model; the reductions regenerated from source and re-proved None-insensitive; correspondence exhaustive over None placements"),
 "C07": ("theorems (all vectors/tables, all keys): v[i], v[slice] = Python list slicing for every start/stop/step (slice_length correct, "
         "positions valid), masks keep exactly the True positions, wrong lengths are errors, comparisons are elementwise; on tables the "
         "same row selection on every column, missing columns are errors, rows and columns commute; " + CORR + " - exhaustive slice box "
         "(n <= 7, bounds -9..9, steps -4..4) on vectors and tables" + TR.format("typeutils.slice_length - EqSlice.v, 3 theorems"),
         TRUST.format(" and the translator") + "CPython's slice adjustment is transcribed in Spec/PySlice.v and validated exhaustively on the box.",
         "Rocq proof against a transcription of PySlice_AdjustIndices; exhaustive correspondence on a slice box; slice_length regenerated from source"),
 "C08": ("theorems (state-and-error model of __setitem__, every failure point): a successful write gives Python list-assignment contents, "
         "same length and name, the dtype is the fold of promotions over the values with existing elements converted; incompatible values "
         "are rejected; ANY failure leaves the state exactly as it was (atomicity); table writes delegate per column on the addressed cells; "
         "rename_columns simulation = application (atomic); " + CORR + " as FAULT ENUMERATION: iterables raising after k items, bad index / "
         "bad value at every position, None and widening in one write, self-keyed table writes" + TR.format("typing.py - EqTyping.v"),
         TRUST.format(" and the translator") + "A multi-column table write that fails in column j keeps columns < j (reading note in DESIGN.md).",
         "Rocq proof in a state-and-error monad (atomicity = state at the failure point is the initial state); fault-enumerating correspondence"),
 "C12": ("theorems (all tables, any number of key columns): groups are the distinct key tuples in first-appearance order with ascending "
         "rows; every built-in aggregate is the textbook function of the group's non-None values in row order, with the empty results; a "
         "custom function is called once per group in order with the raw values; whole-column reductions = aggregating one group; " + CORR
         + " under 3 hash seeds (hash-colliding keys, look-alike column names, named external vectors, prior-call histories, "
         "custom functions that keep their argument, complex / Fraction / Decimal values by the oracle alone)"
         + TR.format("the grouping loop of Table.aggregate (dict get / insert / append, the key tuple of a row) - EqPartition.v, 9 theorems: "
                     "generated index = Model.partition, one entry per distinct key in first-appearance order with ascending rows; the six "
                     "per-group functions - EqReduce.v, 13 theorems: generated = Model.agg_fn, textbook aggregate of the non-None values"),
         TRUST.format(" and the translators") + "dict == insertion-ordered association list; float arithmetic of mean/stdev is a parameter (tolerance 1e-9).",
         "Rocq proof: partition-index lemma + refinement of the grouping algorithm to filter-based spec; grouping loop and per-group functions regenerated from source; differential correspondence"),
 "C13": ("theorems: window keeps the row count and order, reproduces the key columns, and gives row i the aggregate of the group of key i "
         "(= aggregate joined back); " + CORR + " (window and aggregate run on the same inputs; prior-call histories; custom functions; "
         "complex / Fraction / Decimal values by the oracle alone)"
         + TR.format("the grouping loop and the six per-group functions of Table.window - EqPartition.v / EqReduce.v: window builds the "
                     "index aggregate builds and applies to each group what aggregate applies"),
         TRUST.format(" and the translators"), "Rocq proof: window = aggregate expanded to rows; window's grouping loop and per-group functions regenerated from source and proved equal to aggregate's; differential correspondence against aggregate"),
 "C14": ("theorems (any number of keys, every direction / na_last combination): the result is a permutation, strongly sorted for the "
         "lexicographic order of the keys each in its direction with ties in input order (stability), that order determines the result "
         "uniquely, None placement is independent of direction, sorting is idempotent, Vector.sort_by obeys the same contract; " + CORR
         + TR.format("Table.sort_by step 5 and Vector.sort_by (None flag, key = (flag, value), stable passes last-to-first) - EqSort.v, 13 theorems"),
         TRUST.format(" and the translator") + "list.sort is stable and reverse=True keeps the order of equal elements (assumed of CPython).",
         "Rocq proof: stable insertion-sort lemma lifted over the key list; sort kernel regenerated from source and re-proved; exhaustive small tables + random"),
 "C15": ("theorems (all histories, EVERY identity choice of the allocator incl. reuse of freed identities, every placement of collection): "
         "the registry's live view is exactly the sharing relation in every reachable state; a write is refused only while another live "
         "object holds the same non-empty storage, exactly characterised; sole owners are always writable; no write leaks; derived vectors "
         "and the columns of every new table own fresh storage (step_d) and are writable at once; " + CORR + " after every step of random and "
         "planted histories with explicit collection schedules; the oracle finds sharers through gc.get_objects()"
         + TR.format("alias_tracker.py (register, unregister, check_writable, the dead-reference sweep) by state passing - EqAlias.v, 9 theorems (one by induction over every history of tracker calls): "
                     "each operation refines the model's for EVERY liveness predicate; refused iff two live owners of non-empty storage"),
         TRUST.format(" and the translator") + "Weak references die exactly at collection; id() of a live object is unique (CPython).",
         "Rocq proof: registry invariant by induction over histories with the allocator's identity choices as inputs; the tracker regenerated from source and proved to refine the model's registry; state-level refinement check"),
 "C16": ("theorems (all histories): every memo equals the fingerprint of the current contents (vectors and tables) after any write path, "
         "so fingerprint() = that of a fresh object; read-only operations keep it; a write between values with hashes different mod 2^61-1 "
         "changes it, order matters; the unconditional sensitivity statement is REFUTED by a witness (known finding KF1); " + CORR
         + TR.format("_FP_P, _FP_B, the rolling loop, the None/NaN constants, the memo protocol - EqFingerprint.v, 25 theorems incl. gcd(B,P)=1 re-proved on the generated constants"),
         TRUST.format(" and the translator") + "hash() is a parameter given exactly for ints / integral floats.",
         "Rocq proof: memo-coherence invariant + number-theoretic sensitivity (Gauss); fingerprint kernel regenerated from source; refinement check with planted histories"),
 "C17": ("theorems (all name lists, all rename/replace/append histories): sanitised accessors are valid identifiers, never reserved, "
         "pairwise distinct, follow the documented rules, and each resolves (attribute, row attribute, item-assignment key, replacement) to "
         "its own position; dir() and the repr dot row list exactly them; string indexing finds the first occurrence; the map is fresh "
         "whenever it is consulted; " + CORR + " (class-exhaustive sanitiser strings, all duplication patterns up to width 4, planted "
         "rename-then-use histories, zero-row tables)"
         + TR.format("naming._sanitize_user_name: which rules, in which order - EqSanitize.v, 6 theorems incl. the sanitiser theorems restated "
                     "for the generated function"),
         TRUST.format(" and the translator") + "str.lower() and the regex character classes are validated over the BMP (thorough tier).",
         "Rocq proof over a character-class model of the sanitiser (regenerated from naming.py and re-proved) and a history model of the accessor-map cache; differential correspondence"),
 "C18": ("theorems: arithmetic and comparisons give unnamed vectors; copy/slice/mask/index/sort/setitem/promotion keep the name; table-scalar "
         "keeps names, table-table keeps a left name iff the right is absent or equal; construction, >>, selections, sorts, joins keep "
         "stored names in order; aggregate/window names follow <sanitised column>_<function> made unique by least numeric suffixes; the "
         "name of any composed expression is computed compositionally; " + CORR
         + TR.format("_resolve_binary_name, the uniquify helpers and name builders of aggregate/window, the sanitiser - EqNames.v + EqAggNames.v + EqSanitize.v, 19 theorems"),
         TRUST.format(" and the translator"), "Rocq proof over an expression language of names; naming kernels regenerated from source; random expression trees"),
 "C19": ("theorems (all record lists): one column per header cell named verbatim, one row per record, cell (i, j) = conversion of the "
         "record's cell or None when the record is short, excess cells ignored, dtypes by inference, empty inputs give empty tables "
         "(row count holds whenever the header has a cell: refuted otherwise, by design of 'one column per header cell'); " + CORR
         + " as a round trip through csv.writer (delimiters, quoting, CR/LF, path vs file object, look-alike numerals)"
         + TR.format("_infer_type and the record reader _read_csv_from_file (a shape pin) - EqCsv.v + EqCsvReader.v, 13 theorems"),
         TRUST.format(" and the translator") + "The lexical layer is csv.reader's (csv.reader o csv.writer = id assumed).",
         "Rocq proof over the record-list model; cell conversion and record reader regenerated from source; round-trip correspondence"),
}


JOIN_TR = ("; " + CORR + TR.format("the right-side hash index loop of inner_join / join / full_join with its duplicate bookkeeping - "
                                   "EqJoinIndex.v, 5 theorems: generated = Model/Join.build_index, a lookup gives exactly the ascending "
                                   "matching right rows{}"))
EXTRA = {"C09": JOIN_TR.format(""), "C10": JOIN_TR.format(""),
         "C11": JOIN_TR.format("; the expect guard and the uniqueness flags - EqJoin.v, 9 theorems"),
         "C20": "; " + CORR + TR.format("the row budget of _format_column, the column budget of _repr_table, the limits - EqRepr.v, 7 theorems: "
                                        "closed form of the preview for every int limit, generated = Model/Repr, the rows shown are rows of "
                                        "the column in order and the gap appears exactly when rows are hidden")}
JOIN_TECH = "Rocq proof over the join model (hash index + probe loops refine the nested-loop specification); index loop regenerated from source and re-proved; differential correspondence under 3 hash seeds"


def main():
    props = [json.loads(l) for l in (VERIF / "properties.jsonl").read_text().splitlines() if l.strip()]
    checks, na, served = [], [], []
    claimed = set((VERIF / "harness" / "claimed.txt").read_text().split())
    for p in props:
        pid = p["id"]
        f = VERIF / "harness" / "props" / f"{pid.lower()}.py"
        if not f.exists() or pid not in claimed:
            na.append({"property_id": pid, "reason": "check not built yet (planned in DESIGN.md section 4); not claimed"})
            continue
        mod = importlib.import_module(f"harness.props.{pid.lower()}")
        if getattr(mod, "NOT_APPLICABLE", None):
            na.append({"property_id": pid, "reason": mod.NOT_APPLICABLE})
            continue
        served.append(pid)
        checks.append({
            "property_id": pid,
            "quick_cmd": f"./check {pid} --tier quick",
            "thorough_cmd": f"./check {pid} --tier thorough",
            "evidence_file": f"/verif/evidence/{pid}.json",
            "replay_cmd_template": f"./check {pid} --replay {{path}}",
            "engine": "rocq-model+correspondence",
            "level_claimed": {
                "category": "proof",
                "text": (getattr(mod, "LEVEL_TEXT", None) or TEXTS.get(pid, ("theorems about a hand-written Gallina model, " + CORR,))[0])
                        + EXTRA.get(pid, ""),
                "design_ref": getattr(mod, "DESIGN_REF", "DESIGN.md section 4"),
            },
            "level_note": (TEXTS[pid][1] if pid in TEXTS else getattr(mod, "LEVEL_NOTE", TRUST.format(""))),
            "technique": (TEXTS[pid][2] if pid in TEXTS else JOIN_TECH if pid in ("C09", "C10", "C11")
                          else getattr(mod, "TECHNIQUE", "Rocq (Coq 8.16) proof over an executable model + differential correspondence check (vm_compute case files)")),
        })
    man = {
        "version": 1,
        "setup_cmd": "bash /verif/setup.sh",
        "hooks": {
            "guard": "SERIF_VERIF",
            "enable": "no hooks are needed (all properties have hook_needed: null); checks run /repo/src as is with SERIF_VERIF=1 set",
            "baseline_off_cmd": BASELINE,
            "source_commits": [],
            "add_only": True,
        },
        "engines": [
            {"name": "rocq-model+correspondence", "path": "/verif/coq", "serves_properties": served,
             "kind_free_text": "Coq 8.16.1 development (Base/Spec/Model/Proofs/Props/Corr) + Python harness that "
                               "runs /repo's current tree and evaluates generated case files inside coqc"},
        ],
        "checks": checks,
        "notes": "See DESIGN.md. Known findings and fixed defects: /verif/known_findings.json.",
        "not_applicable": na,
    }
    (VERIF / "MANIFEST.json").write_text(json.dumps(man, indent=1) + "\n")
    print(f"{len(checks)} checks, {len(na)} not applicable")


if __name__ == "__main__":
    main()
