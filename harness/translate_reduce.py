"""harness/translate_reduce.py — fail-closed translator of the None-skipping reductions (GenReduce.v).

Sources: vector.py  Vector.max / min / sum / all / any / mean / stdev (the 1-D branch of each; the 2-D branch must be
                    EXACTLY the column-wise map `self.copy((c.<same>(<same args>) for c in self.cols()), name=None).T`)
         table.py   Table.aggregate: the six functions handed to aggregate_col(col, <fn>, "<suffix>")
                    Table.window:    the six `def fn(vals)` handed to compute_group_values(col, fn), named by the
                                     sanitize(col, "<suffix>") of the same loop body

The language (anything else is a TranslationError):
  statements   x = <expr> | if <nat test>: return None | return <expr> | return None          (docstring allowed first)
  cells        self._underlying | the parameter (vals)                                       : list (option val)
  list         [v for v in <cells> if v is not None] | (v for v in <cells> if v is not None) : list val  = live_values
  nat          len(<list>)                     (compared with < / <= against an int literal; a number in arithmetic)
  num          sum(<list>) | sum(<num in x> for x in <list>) | sum(1 for v in <cells> if v is not None)
               <num> + - * / ** <num> | int and float literals | a bool parameter | a list element inside sum(... for)
  result       max(<list>) min(<list>) all(<list>) any(<list>) | <num> | <e> if <list> else None | None
Python's builtins and arithmetic are PARAMETERS of the generated section (b_max, b_sum, n_div, ...): what is
translated is which values reach them — the None-free ones, in order — and when the answer is None outright."""
import ast
from pathlib import Path



class TranslationError(Exception):           # the same shape as harness.translate.TranslationError (caught there by name)
    def __init__(self, file, lineno, what):
        self.file, self.lineno, self.what = str(file), lineno, what
        super().__init__(f"{Path(str(file)).name}:{lineno}: {what}")


IMPORTS = ("From Coq Require Import List Bool Arith ZArith.\nFrom Serif Require Import Base.GenPrelude.\n"
           "Import ListNotations.\n")

SECTION_HEAD = """Section Reduce.
Variables val num R : Type.
(* Python's builtins and arithmetic, as one bundle (so that the signature of a generated definition does not depend on
   which of them its body happens to use) *)
Record ops := mkOps {
  r_none : R;                                  (* None *)
  r_num : num -> R;                            (* a number as a result *)
  b_max : list val -> R; b_min : list val -> R; b_all : list val -> R; b_any : list val -> R;
                                               (* max(l) min(l) all(l) any(l) of a None-free list *)
  b_sum : list num -> num;                     (* sum(l): + from the int 0, left to right *)
  inj : val -> num;                            (* an element used as a number *)
  n_of_nat : nat -> num;                       (* len(...) / a count as a number *)
  n_of_Z : Z -> num;                           (* an int literal *)
  n_of_bool : bool -> num;                     (* a bool argument in arithmetic *)
  n_float : nat -> num;                        (* the float literals, by number: see the table in the header *)
  n_add : num -> num -> num; n_sub : num -> num -> num; n_mul : num -> num -> num;
  n_div : num -> num -> num; n_pow : num -> num -> num }.
Variable o : ops.
"""
OPS = ["r_none", "r_num", "b_max", "b_min", "b_all", "b_any", "b_sum", "inj", "n_of_nat", "n_of_Z", "n_of_bool", "n_float",
       "n_add", "n_sub", "n_mul", "n_div", "n_pow"]

VEC = ["max", "min", "sum", "all", "any", "mean", "stdev"]
SUFFIXES = ["sum", "mean", "min", "max", "count", "stdev"]


class _T:
    """one function -> a Gallina term"""

    def __init__(self, path, fname, cells_names, bools, floats):
        self.path, self.fname = path, fname
        self.cells = set(cells_names)          # python spellings of the cells: 'vals', 'self._underlying'
        self.bools = set(bools)
        self.floats = floats                   # shared table of float literals
        self.env = {}                          # local -> (coq name, type)

    def err(self, node, what):
        return TranslationError(self.path, getattr(node, "lineno", 0), f"{self.fname}: {what}")

    # -- generators over the cells
    def _is_dropnone(self, comp):
        """[v for v in <cells> if v is not None] -> the cells expression, or None"""
        if len(comp.generators) != 1:
            return None
        g = comp.generators[0]
        if g.is_async or not isinstance(g.target, ast.Name) or len(g.ifs) != 1:
            return None
        t = g.ifs[0]
        ok = (isinstance(t, ast.Compare) and len(t.ops) == 1 and isinstance(t.ops[0], ast.IsNot)
              and isinstance(t.left, ast.Name) and t.left.id == g.target.id
              and isinstance(t.comparators[0], ast.Constant) and t.comparators[0].value is None)
        return (g.iter, g.target.id) if ok else None

    def cells_expr(self, node):
        s = ast.unparse(node)
        if s in self.cells:
            return "xs"
        raise self.err(node, f"`{s}` is not the vector's cells")

    def expr(self, node, bound=()):
        """-> (term, type) with type in list / nat / num / res"""
        if isinstance(node, ast.Constant):
            if node.value is None:
                return "r_none", "res"
            if type(node.value) is int:
                return f"(n_of_Z ({node.value})%Z)", "num"
            if type(node.value) is float:
                r = repr(node.value)
                if r not in self.floats:
                    self.floats.append(r)
                return f"(n_float {self.floats.index(r)})", "num"
            raise self.err(node, f"literal {node.value!r}")
        if isinstance(node, ast.Name):
            if node.id in bound:
                return f"(inj py_{node.id})", "num"
            if node.id in self.env:
                return self.env[node.id]
            if node.id in self.bools:
                return f"(n_of_bool py_{node.id})", "num"
            raise self.err(node, f"name `{node.id}` is not a local, a list element or a bool parameter")
        if isinstance(node, (ast.ListComp, ast.GeneratorExp)):
            d = self._is_dropnone(node)
            if d is None or not (isinstance(node.elt, ast.Name) and node.elt.id == d[1]):
                raise self.err(node, f"comprehension `{ast.unparse(node)}` is not `v for v in <cells> if v is not None`")
            return f"(live_values {self.cells_expr(d[0])})", "list"
        if isinstance(node, ast.Call) and isinstance(node.func, ast.Name) and not node.keywords and len(node.args) == 1:
            f, a = node.func.id, node.args[0]
            if f in self.env or f in bound:
                raise self.err(node, f"`{f}` is re-bound")
            if f == "len":
                t, ty = self.expr(a, bound)
                if ty != "list":
                    raise self.err(node, f"len of a {ty}")
                return f"(length {t})", "nat"
            if f in ("max", "min", "all", "any"):
                t, ty = self.expr(a, bound)
                if ty != "list":
                    raise self.err(node, f"{f} of a {ty}")
                return f"(b_{f} {t})", "res"
            if f == "sum":
                if isinstance(a, ast.GeneratorExp):
                    d = self._is_dropnone(a)
                    if d is not None:
                        cells = self.cells_expr(d[0])
                        if isinstance(a.elt, ast.Name) and a.elt.id == d[1]:
                            return f"(b_sum (map inj (live_values {cells})))", "num"        # sum(v for v in cells if v is not None)
                        if isinstance(a.elt, ast.Constant) and type(a.elt.value) is int and a.elt.value == 1:
                            return f"(n_of_nat (length (live_values {cells})))", "num"     # sum(1 for ...): a count
                        raise self.err(a, "sum over the cells of something other than the element or 1")
                    # sum(<num in x> for x in <list>)
                    if len(a.generators) != 1 or a.generators[0].ifs or a.generators[0].is_async \
                            or not isinstance(a.generators[0].target, ast.Name):
                        raise self.err(a, "generator shape")
                    x = a.generators[0].target.id
                    if x in self.env or x in self.bools:
                        raise self.err(a, f"generator variable `{x}` shadows a local")
                    l, lt = self.expr(a.generators[0].iter, bound)
                    if lt != "list":
                        raise self.err(a, f"sum(... for {x} in <{lt}>)")
                    body, bt = self.expr(a.elt, tuple(bound) + (x,))
                    body = self.as_num(a.elt, body, bt)
                    return f"(b_sum (map (fun py_{x} => {body}) {l}))", "num"
                t, ty = self.expr(a, bound)
                if ty != "list":
                    raise self.err(node, f"sum of a {ty}")
                return f"(b_sum (map inj {t}))", "num"
            raise self.err(node, f"call of `{f}`")
        if isinstance(node, ast.BinOp):
            ops = {ast.Add: "n_add", ast.Sub: "n_sub", ast.Mult: "n_mul", ast.Div: "n_div", ast.Pow: "n_pow"}
            if type(node.op) not in ops:
                raise self.err(node, f"operator {type(node.op).__name__}")
            a, ta = self.expr(node.left, bound)
            b, tb = self.expr(node.right, bound)
            return f"({ops[type(node.op)]} {self.as_num(node.left, a, ta)} {self.as_num(node.right, b, tb)})", "num"
        if isinstance(node, ast.IfExp):
            c, tc = self.expr(node.test, bound)
            if tc != "list" or not (isinstance(node.orelse, ast.Constant) and node.orelse.value is None):
                raise self.err(node, "conditional expression that is not `<e> if <list> else None`")
            a, ta = self.expr(node.body, bound)
            return f"(match {c} with [] => r_none | _ :: _ => {self.as_res(node.body, a, ta)} end)", "res"
        raise self.err(node, f"expression form {type(node).__name__} is not on the allow-list")

    def as_num(self, node, t, ty):
        if ty == "num":
            return t
        if ty == "nat":
            return f"(n_of_nat {t})"
        raise self.err(node, f"a {ty} used as a number")

    def as_res(self, node, t, ty):
        if ty == "res":
            return t
        if ty in ("num", "nat"):
            return f"(r_num {self.as_num(node, t, ty)})"
        raise self.err(node, f"a {ty} returned")

    def test(self, node):
        if not (isinstance(node, ast.Compare) and len(node.ops) == 1 and isinstance(node.ops[0], (ast.Lt, ast.LtE))
                and isinstance(node.comparators[0], ast.Constant) and type(node.comparators[0].value) is int
                and 0 <= node.comparators[0].value <= 64):
            raise self.err(node, f"test `{ast.unparse(node)}` is not `<len> < k` / `<len> <= k`")
        a, ta = self.expr(node.left)
        if ta != "nat":
            raise self.err(node, f"a {ta} compared with an int literal")
        return f"({'Nat.ltb' if isinstance(node.ops[0], ast.Lt) else 'Nat.leb'} {a} {node.comparators[0].value})"

    def body(self, stmts):
        if not stmts:
            raise self.err(None, "falls off the end (returns None implicitly)")
        s, rest = stmts[0], stmts[1:]
        if isinstance(s, ast.Expr) and isinstance(s.value, ast.Constant) and isinstance(s.value.value, str):
            return self.body(rest)
        if isinstance(s, ast.Return):
            if rest:
                raise self.err(rest[0], "code after return")
            if s.value is None:
                return "r_none"
            t, ty = self.expr(s.value)
            return self.as_res(s.value, t, ty)
        if isinstance(s, ast.Assign):
            if len(s.targets) != 1 or not isinstance(s.targets[0], ast.Name):
                raise self.err(s, "assignment target")
            x = s.targets[0].id
            if x in self.env or x in self.bools or x in ("len", "sum", "max", "min", "all", "any"):
                raise self.err(s, f"`{x}` is assigned twice / shadows")
            t, ty = self.expr(s.value)
            if ty == "res":
                raise self.err(s, "a result stored in a local")
            self.env[x] = (f"py_{x}", ty)
            return f"let py_{x} := {t} in (* L{s.lineno} *)\n  {self.body(rest)}"
        if isinstance(s, ast.If):
            if s.orelse or len(s.body) != 1 or not isinstance(s.body[0], ast.Return) \
                    or not (s.body[0].value is None or (isinstance(s.body[0].value, ast.Constant) and s.body[0].value.value is None)):
                raise self.err(s, "`if` that is not `if <test>: return None`")
            return f"if {self.test(s.test)} then r_none else (* L{s.lineno} *)\n  {self.body(rest)}"
        raise self.err(s, f"statement {type(s).__name__} is not on the allow-list")


def _define(name, params, term, comment):
    import re
    term = re.sub(r"\b(" + "|".join(OPS) + r")\b", r"(\1 o)", term)
    ps = "".join(f" ({p} : {t})" for p, t in params)
    return f"(* {comment} *)\nDefinition {name}{ps} (xs : list (option val)) : R :=\n  {term}.\n"


def _one_class(tree, path, cname):
    cs = [n for n in tree.body if isinstance(n, ast.ClassDef) and n.name == cname]
    if len(cs) != 1:
        raise TranslationError(path, 0, f"class {cname}: found {len(cs)} definitions")
    return cs[0]


def _method(cls, path, name):
    ms = [n for n in ast.walk(cls) if isinstance(n, (ast.FunctionDef, ast.AsyncFunctionDef)) and n.name == name]
    if len(ms) != 1 or ms[0] not in cls.body or ms[0].decorator_list or isinstance(ms[0], ast.AsyncFunctionDef):
        raise TranslationError(path, 0, f"method {cls.name}.{name}: found {len(ms)} plain definitions")
    return ms[0]


def _plain_params(fn, path, what):
    a = fn.args
    if a.vararg or a.kwarg or a.kwonlyargs or a.posonlyargs:
        raise TranslationError(path, fn.lineno, f"{what}: *args / keyword-only parameters")
    return [x.arg for x in a.args], a.defaults


def translate_reduce(src: Path):
    notes, parts, lines, floats = [], [], {}, []
    vpath, tpath = src / "vector.py", src / "table.py"
    vtree = ast.parse(vpath.read_text(), filename=str(vpath))
    V = _one_class(vtree, vpath, "Vector")
    for m in VEC:
        f = _method(V, vpath, m)
        params, defaults = _plain_params(f, vpath, f"Vector.{m}")
        extra = params[1:]
        if params[:1] != ["self"] or (m != "stdev" and extra) or (m == "stdev" and (extra != ["population"] or len(defaults) != 1
                                                                                        or ast.unparse(defaults[0]) != "False")):
            raise TranslationError(vpath, f.lineno, f"Vector.{m}: parameters {params}")
        body = [s for s in f.body if not (isinstance(s, ast.Expr) and isinstance(s.value, ast.Constant) and isinstance(s.value.value, str))]
        args = ", ".join(extra)
        guard = f"if self.ndims() == 2:\n    return self.copy((c.{m}({args}) for c in self.cols()), name=None).T"
        if not body or ast.unparse(body[0]) != guard:
            raise TranslationError(vpath, f.lineno, f"Vector.{m}: the first statement is not the column-wise map of the 2-D case "
                                                    f"(`{guard.splitlines()[1].strip()}`)")
        if any(isinstance(n, ast.Name) and n.id == "self" for s in body[1:] for n in ast.walk(s)
               if not (isinstance(n, ast.Name))) or False:
            pass
        for s in body[1:]:
            for n in ast.walk(s):
                if isinstance(n, ast.Attribute) and ast.unparse(n) != "self._underlying":
                    raise TranslationError(vpath, n.lineno, f"Vector.{m}: attribute `{ast.unparse(n)}`")
                if isinstance(n, ast.Name) and n.id == "self" and isinstance(n.ctx, ast.Store):
                    raise TranslationError(vpath, n.lineno, f"Vector.{m}: self is re-bound")
        t = _T(vpath, f"Vector.{m}", ["self._underlying"], extra, floats)
        term = t.body(body[1:])
        parts.append(_define(f"vec_{m}", [(f"py_{p}", "bool") for p in extra], term,
                             f"vector.py:{f.lineno}-{f.end_lineno} Vector.{m}, 1-D branch (a table maps it over its columns)"))
        lines[f"vec_{m}"] = [f.lineno, f.end_lineno]
    ttree = ast.parse(tpath.read_text(), filename=str(tpath))
    T = _one_class(ttree, tpath, "Table")
    # ---- aggregate: aggregate_col(col, <fn>, "<suffix>")
    A = _method(T, tpath, "aggregate")
    calls = [c for c in ast.walk(A) if isinstance(c, ast.Call) and isinstance(c.func, ast.Name) and c.func.id == "aggregate_col"]
    seen = {}
    for c in calls:
        if len(c.args) != 3 or c.keywords or not (isinstance(c.args[2], ast.Constant) and isinstance(c.args[2].value, str)):
            raise TranslationError(tpath, c.lineno, "Table.aggregate: aggregate_col call shape")
        suf, fn = c.args[2].value, c.args[1]
        if suf in seen:
            raise TranslationError(tpath, c.lineno, f"Table.aggregate: two aggregate_col calls for \"{suf}\"")
        if isinstance(fn, ast.Name):
            defs = [n for n in ast.walk(A) if isinstance(n, ast.FunctionDef) and n.name == fn.id]
            if len(defs) != 1 or sum(1 for n in ast.walk(A) if isinstance(n, ast.Name) and n.id == fn.id and isinstance(n.ctx, ast.Store)):
                raise TranslationError(tpath, c.lineno, f"Table.aggregate: `{fn.id}` is not defined exactly once")
            d = defs[0]
            params, _ = _plain_params(d, tpath, f"Table.aggregate/{fn.id}")
            stmts, ln = d.body, (d.lineno, d.end_lineno)
        elif isinstance(fn, ast.Lambda):
            params = [x.arg for x in fn.args.args]
            if fn.args.vararg or fn.args.kwarg or fn.args.kwonlyargs:
                raise TranslationError(tpath, c.lineno, "Table.aggregate: lambda parameters")
            stmts, ln = [ast.copy_location(ast.Return(value=fn.body), fn)], (fn.lineno, fn.end_lineno)
        else:
            raise TranslationError(tpath, c.lineno, "Table.aggregate: the function handed to aggregate_col is neither a lambda nor a local def")
        if not params or params[1:] not in ([], ["d"]):
            raise TranslationError(tpath, c.lineno, f"Table.aggregate/{suf}: parameters {params}")
        for s in stmts:
            for n in ast.walk(s):
                if isinstance(n, ast.Name) and n.id in params[1:]:
                    raise TranslationError(tpath, n.lineno, f"Table.aggregate/{suf}: the unused default parameter `{n.id}` is used")
                if isinstance(n, ast.Attribute):
                    raise TranslationError(tpath, n.lineno, f"Table.aggregate/{suf}: attribute `{ast.unparse(n)}`")
        t = _T(tpath, f"Table.aggregate/{suf}", [params[0]], [], floats)
        seen[suf] = (_define(f"aggregate_{suf}", [], t.body(list(stmts)),
                             f"table.py:{ln[0]}-{ln[1]} Table.aggregate: the function applied to each group's cells for \"{suf}\""), ln)
    if sorted(seen) != sorted(SUFFIXES):
        raise TranslationError(tpath, A.lineno, f"Table.aggregate: aggregate_col is called for {sorted(seen)}, expected {sorted(SUFFIXES)}")
    for suf in SUFFIXES:
        parts.append(seen[suf][0])
        lines[f"aggregate_{suf}"] = list(seen[suf][1])
    # ---- window: def fn(vals) ... compute_group_values(col, fn) ... sanitize(col, "<suffix>") in one loop body
    W = _method(T, tpath, "window")
    seen = {}
    for loop in [n for n in ast.walk(W) if isinstance(n, ast.For)]:
        cg = [c for s in loop.body for c in ast.walk(s) if isinstance(c, ast.Call) and isinstance(c.func, ast.Name)
              and c.func.id == "compute_group_values"]
        if not cg:
            continue
        sz = [c for s in loop.body for c in ast.walk(s) if isinstance(c, ast.Call) and isinstance(c.func, ast.Name)
              and c.func.id == "sanitize"]
        defs = [s for s in loop.body if isinstance(s, ast.FunctionDef)]
        if len(cg) != 1 or len(sz) != 1 or len(defs) != 1 or len(cg[0].args) != 2 or cg[0].keywords \
                or not (isinstance(cg[0].args[1], ast.Name) and cg[0].args[1].id == defs[0].name) \
                or len(sz[0].args) != 2 or not (isinstance(sz[0].args[1], ast.Constant) and isinstance(sz[0].args[1].value, str)) \
                or loop.body.index(defs[0]) > min(loop.body.index(s) for s in loop.body if cg[0] in list(ast.walk(s))):
            raise TranslationError(tpath, loop.lineno, "Table.window: a built-in aggregation loop is not `def fn(vals)` + "
                                                       "compute_group_values(col, fn) + sanitize(col, \"<suffix>\")")
        suf, d = sz[0].args[1].value, defs[0]
        params, defaults = _plain_params(d, tpath, f"Table.window/{suf}")
        if len(params) != 1 or defaults or suf in seen:
            raise TranslationError(tpath, d.lineno, f"Table.window/{suf}: parameters {params} / repeated suffix")
        for s in d.body:
            for n in ast.walk(s):
                if isinstance(n, ast.Attribute):
                    raise TranslationError(tpath, n.lineno, f"Table.window/{suf}: attribute `{ast.unparse(n)}`")
        t = _T(tpath, f"Table.window/{suf}", [params[0]], [], floats)
        seen[suf] = (_define(f"window_{suf}", [], t.body(list(d.body)),
                             f"table.py:{d.lineno}-{d.end_lineno} Table.window: the function applied to each group's cells for \"{suf}\""),
                     (d.lineno, d.end_lineno))
    if sorted(seen) != sorted(SUFFIXES):
        raise TranslationError(tpath, W.lineno, f"Table.window: built-in aggregation loops found for {sorted(seen)}, expected {sorted(SUFFIXES)}")
    for suf in SUFFIXES:
        parts.append(seen[suf][0])
        lines[f"window_{suf}"] = list(seen[suf][1])
    notes.append("float literals (n_float k): " + ", ".join(f"{k} = {r}" for k, r in enumerate(floats)))
    notes.append("NOT translated: the 2-D branch of the Vector reductions (required to be the column-wise map), the grouping "
                 "loops of aggregate / window (Model/Group.v, tied by the correspondence checks of C12 / C13), Python's own "
                 "max / min / sum / all / any and arithmetic (parameters).")
    head = ("(* GenReduce.v — GENERATED by harness/translate_reduce.py from vector.py (Vector.max/min/sum/all/any/mean/stdev)\n"
            "   and table.py (the per-group functions of Table.aggregate and Table.window); do not edit.\n"
            "   Which cells reach Python's reduction — the None-free ones, in order — and when the answer is None outright.\n"
            + "".join(f"   {n}\n" for n in notes).replace("*)", "* )") + "*)\n" + IMPORTS + "\n" + SECTION_HEAD + "\n")
    return head + "\n".join(parts) + "\nEnd Reduce.\n", {"lines": lines, "notes": notes}


# ---- isna / dropna (GenNa.v) ---------------------------------------------------------------------------------------

IMPORTS_NA = ("From Coq Require Import List Bool.\nFrom Serif Require Import Base.PyVal Base.GenPrelude Model.Dtype.\n"
              "Import ListNotations.\n")


def translate_na(src: Path):
    """Vector.isna and Vector.dropna: two strict shapes.
         isna   : return Vector(tuple(<e> is None for <e> in self._underlying), dtype=DataType(bool))
         dropna : dtype = self._dtype.with_nullable(False) if self._dtype is not None else None
                  return Vector(tuple(<e> for <e> in self._underlying if <e> is not None), dtype=dtype)
       A vector is (cells, dtype); DataType(bool) is mkD KBool false; d.with_nullable(False) is mkD (dkind d) false (that is what
       the generated with_nullable of GenTyping.v is proved to be, EqTyping.v)."""
    vpath = src / "vector.py"
    tree = ast.parse(vpath.read_text(), filename=str(vpath))
    V = _one_class(tree, vpath, "Vector")
    parts, lines = [], {}

    def body_of(name):
        f = _method(V, vpath, name)
        params, _ = _plain_params(f, vpath, f"Vector.{name}")
        if params != ["self"]:
            raise TranslationError(vpath, f.lineno, f"Vector.{name}: parameters {params}")
        b = [s for s in f.body if not (isinstance(s, ast.Expr) and isinstance(s.value, ast.Constant) and isinstance(s.value.value, str))]
        return f, b

    f, b = body_of("isna")
    ok = len(b) == 1 and isinstance(b[0], ast.Return) and isinstance(b[0].value, ast.Call)
    if ok:
        c = b[0].value
        ok = (ast.unparse(c.func) == "Vector" and len(c.args) == 1 and [k.arg for k in c.keywords] == ["dtype"]
              and ast.unparse(c.keywords[0].value) == "DataType(bool)" and isinstance(c.args[0], ast.Call)
              and ast.unparse(c.args[0].func) == "tuple" and len(c.args[0].args) == 1 and isinstance(c.args[0].args[0], ast.GeneratorExp))
        if ok:
            g = c.args[0].args[0]
            ok = (len(g.generators) == 1 and not g.generators[0].ifs and isinstance(g.generators[0].target, ast.Name)
                  and ast.unparse(g.generators[0].iter) == "self._underlying"
                  and ast.unparse(g.elt) == f"{g.generators[0].target.id} is None")
    if not ok:
        raise TranslationError(vpath, f.lineno, "Vector.isna is not `return Vector(tuple(e is None for e in self._underlying), dtype=DataType(bool))`")
    parts.append(f"(* vector.py:{f.lineno}-{f.end_lineno} Vector.isna *)\n"
                 "Definition vec_isna (xs : list (option val)) : list bool * dtype :=\n"
                 "  (map (fun e => match e with None => true | Some _ => false end) xs, mkD KBool false).\n")
    lines["vec_isna"] = [f.lineno, f.end_lineno]

    f, b = body_of("dropna")
    ok = (len(b) == 2 and ast.unparse(b[0]) == "dtype = self._dtype.with_nullable(False) if self._dtype is not None else None"
          and isinstance(b[1], ast.Return) and isinstance(b[1].value, ast.Call))
    if ok:
        c = b[1].value
        ok = (ast.unparse(c.func) == "Vector" and len(c.args) == 1 and [k.arg for k in c.keywords] == ["dtype"]
              and ast.unparse(c.keywords[0].value) == "dtype" and isinstance(c.args[0], ast.Call)
              and ast.unparse(c.args[0].func) == "tuple" and len(c.args[0].args) == 1 and isinstance(c.args[0].args[0], ast.GeneratorExp))
        if ok:
            g = c.args[0].args[0]
            gg = g.generators[0] if len(g.generators) == 1 else None
            ok = (gg is not None and isinstance(gg.target, ast.Name) and ast.unparse(gg.iter) == "self._underlying"
                  and len(gg.ifs) == 1 and ast.unparse(gg.ifs[0]) == f"{gg.target.id} is not None"
                  and ast.unparse(g.elt) == gg.target.id)
    if not ok:
        raise TranslationError(vpath, f.lineno, "Vector.dropna is not `dtype = self._dtype.with_nullable(False) if self._dtype is not None "
                                                "else None; return Vector(tuple(e for e in self._underlying if e is not None), dtype=dtype)`")
    parts.append(f"(* vector.py:{f.lineno}-{f.end_lineno} Vector.dropna *)\n"
                 "Definition vec_dropna (dt : option dtype) (xs : list (option val)) : list (option val) * option dtype :=\n"
                 "  let py_dtype := match dt with Some d => Some (mkD (dkind d) false) | None => None end in\n"
                 "  (map Some (live_values xs), py_dtype).\n")
    lines["vec_dropna"] = [f.lineno, f.end_lineno]
    notes = ["strict shapes (see harness/translate_reduce.py: translate_na); DataType(bool) = mkD KBool false, "
             "d.with_nullable(False) = mkD (dkind d) false (EqTyping.v proves that of the generated with_nullable)",
             "NOT translated: Vector.fillna (validate / promote / fill: Model/NoneOps.fillna, tied by C06's correspondence check)"]
    head = ("(* GenNa.v — GENERATED by harness/translate_reduce.py from vector.py (Vector.isna, Vector.dropna); do not edit.\n"
            + "".join(f"   {n}\n" for n in notes).replace("*)", "* )") + "*)\n" + IMPORTS_NA
            + "\nSection Na.\nVariable val : Type.\n\n")
    return head + "\n".join(parts) + "\nEnd Na.\n", {"lines": lines, "notes": notes}
