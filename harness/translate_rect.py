"""harness/translate_rect.py — fail-closed translator of the RECTANGULARITY GUARDS (GenRect.v): the places where serif decides
whether a bunch of columns may become / stay a table, seen through the column lengths.

  Vector.__new__     `if <A>: if <B>: from .table import Table; return Table(initial=initial, ...)` - the dispatch to Table
  Table.__init__     `self._length = <int expr>` and `if <test>: raise SerifValueError(...)` - the constructor's own guard
  Table.__setattr__  the two `if <test>: raise ValueError(...)` guards on the length of a replacement column (t.col = v,
                     t.col__N = v): exactly two, with the same test
The language of the tests (anything else is a TranslationError):
  initial                                   (truthiness of the column sequence)      -> negb (is_nil lens)
  all(isinstance(x, Vector) for x in initial)                                         -> the parameter all_vectors
  len({len(x) for x in initial}) == n                                                 -> Nat.eqb (length (nodup Nat.eq_dec lens)) n
  len(initial[0]) if initial else n                                                   -> if negb (is_nil lens) then hd 0 lens else n
  any(len(v) != self._length for v in initial)                                        -> existsb (fun n => negb (Nat.eqb n len_)) lens
  self._underlying  (truthiness)  /  len(value) != self._length                       -> negb (Nat.eqb ncols 0) / negb (Nat.eqb vlen len_)
  t and t | t or t | not t
What is NOT translated: that `len(x)` of a column is the number of its cells, that the generators run over `initial` in
order, what Table(...) does with accepted columns (the heap model of C02 and its correspondence check)."""
import ast
from pathlib import Path


class TranslationError(Exception):           # the same shape as harness.translate.TranslationError (caught there by name)
    def __init__(self, file, lineno, what):
        self.file, self.lineno, self.what = str(file), lineno, what
        super().__init__(f"{Path(str(file)).name}:{lineno}: {what}")


IMPORTS = "From Coq Require Import List Bool Arith.\nImport ListNotations.\n\nDefinition is_nil {A} (l : list A) : bool := match l with [] => true | _ => false end.\n\n"


def _is_doc(s):
    return isinstance(s, ast.Expr) and isinstance(s.value, ast.Constant) and isinstance(s.value.value, str)


def _gen_over(node, seq):
    """generator `<elt> for v in <seq>` -> (elt, v) or None"""
    if isinstance(node, (ast.GeneratorExp, ast.SetComp)) and len(node.generators) == 1:
        g = node.generators[0]
        if not g.ifs and not g.is_async and isinstance(g.target, ast.Name) and ast.unparse(g.iter) == seq:
            return node.elt, g.target.id
    return None


class Tr:
    def __init__(self, path, where, seq, length_name):
        self.path, self.where, self.seq, self.length_name = path, where, seq, length_name

    def err(self, node, what):
        return TranslationError(self.path, getattr(node, "lineno", 0), f"{self.where}: {what}")

    def nat(self, e):
        if isinstance(e, ast.Constant) and type(e.value) is int and 0 <= e.value <= 9:
            return str(e.value)
        if isinstance(e, ast.IfExp) and ast.unparse(e.test) == self.seq and ast.unparse(e.body) == f"len({self.seq}[0])":
            return f"(if negb (is_nil lens) then hd 0 lens else {self.nat(e.orelse)})"
        if isinstance(e, ast.Call) and isinstance(e.func, ast.Name) and e.func.id == "len" and len(e.args) == 1:
            g = _gen_over(e.args[0], self.seq) if isinstance(e.args[0], ast.SetComp) else None
            if g and ast.unparse(g[0]) == f"len({g[1]})":
                return "(length (nodup Nat.eq_dec lens))"
        if self.length_name and ast.unparse(e) == self.length_name:
            return "len_"
        raise self.err(e, f"length expression `{ast.unparse(e)}`")

    def test(self, t):
        if isinstance(t, ast.BoolOp):
            op = " && " if isinstance(t.op, ast.And) else " || "
            return "(" + op.join(self.test(v) for v in t.values) + ")"
        if isinstance(t, ast.UnaryOp) and isinstance(t.op, ast.Not):
            return f"(negb {self.test(t.operand)})"
        if ast.unparse(t) == self.seq:
            return "(negb (is_nil lens))"
        if isinstance(t, ast.Call) and isinstance(t.func, ast.Name) and t.func.id in ("all", "any") and len(t.args) == 1 and not t.keywords:
            g = _gen_over(t.args[0], self.seq)
            if g is None:
                raise self.err(t, f"`{t.func.id}(...)` must run over `{self.seq}`")
            elt, v = g
            if t.func.id == "all" and ast.unparse(elt) == f"isinstance({v}, Vector)":
                return "all_vectors"
            if t.func.id == "any" and isinstance(elt, ast.Compare) and len(elt.ops) == 1 and isinstance(elt.ops[0], ast.NotEq) \
                    and ast.unparse(elt.left) == f"len({v})":
                return f"(existsb (fun n => negb (Nat.eqb n {self.nat(elt.comparators[0])})) lens)"
            raise self.err(t, f"`{ast.unparse(t)[:70]}`")
        if isinstance(t, ast.Compare) and len(t.ops) == 1 and isinstance(t.ops[0], (ast.Eq, ast.NotEq)):
            a, b = self.nat(t.left), self.nat(t.comparators[0])
            return f"(Nat.eqb {a} {b})" if isinstance(t.ops[0], ast.Eq) else f"(negb (Nat.eqb {a} {b}))"
        raise self.err(t, f"test `{ast.unparse(t)[:70]}`")


def translate_rect(src: Path):
    vpath, tpath = src / "vector.py", src / "table.py"
    vt = ast.parse(vpath.read_text(), filename=str(vpath))
    tt = ast.parse(tpath.read_text(), filename=str(tpath))

    def method(tree, path, cls, name):
        cs = [n for n in tree.body if isinstance(n, ast.ClassDef) and n.name == cls]
        if len(cs) != 1:
            raise TranslationError(path, 0, f"class {cls}: found {len(cs)}")
        ms = [n for n in cs[0].body if isinstance(n, ast.FunctionDef) and n.name == name]
        if len(ms) != 1:
            raise TranslationError(path, cs[0].lineno, f"{cls}.{name}: found {len(ms)} definitions")
        return ms[0]

    lines, notes = {}, []
    # ---- Vector.__new__: the dispatch to Table ------------------------------------------------------------------------
    N = method(vt, vpath, "Vector", "__new__")
    if [a.arg for a in N.args.args][:2] != ["cls", "initial"]:
        raise TranslationError(vpath, N.lineno, "Vector.__new__: parameters do not start with (cls, initial)")
    outer = [s for s in N.body if isinstance(s, ast.If) and any(isinstance(n, ast.Return) and isinstance(n.value, ast.Call)
             and ast.unparse(n.value.func) == "Table" for n in ast.walk(s))]
    if len(outer) != 1 or outer[0].orelse:
        raise TranslationError(vpath, N.lineno, f"Vector.__new__: exactly one `if` leading to `return Table(...)` is expected (found {len(outer)})")
    O = outer[0]
    ob = [s for s in O.body if not _is_doc(s)]
    if not (ob and isinstance(ob[0], ast.If) and not ob[0].orelse):
        raise TranslationError(vpath, O.lineno, "Vector.__new__: the table test must be `if <A>: if <B>: ... return Table(...)`")
    ib = [s for s in ob[0].body if not _is_doc(s)]
    if [ast.unparse(s) for s in ib[:1]] != ["from .table import Table"] or len(ib) != 2 or not isinstance(ib[1], ast.Return) \
            or not ast.unparse(ib[1].value).startswith("Table(initial=initial,"):
        raise TranslationError(vpath, ob[0].lineno, "Vector.__new__: the inner branch must be `from .table import Table; return Table(initial=initial, ...)`")
    for s in N.body[:N.body.index(O)]:
        for n in ast.walk(s):
            if isinstance(n, ast.Return):
                raise TranslationError(vpath, n.lineno, "Vector.__new__: a return before the table test")
    tr = Tr(vpath, "Vector.__new__", "initial", None)
    disp = f"({tr.test(O.test)} && {tr.test(ob[0].test)})"
    lines["new_makes_table"] = [O.lineno, ob[0].end_lineno]

    # ---- Table.__init__ ------------------------------------------------------------------------------------------------
    I = method(tt, tpath, "Table", "__init__")
    if [a.arg for a in I.args.args][:2] != ["self", "initial"]:
        raise TranslationError(tpath, I.lineno, "Table.__init__: parameters do not start with (self, initial)")
    body = [s for s in I.body if not _is_doc(s)]
    li = [i for i, s in enumerate(body) if isinstance(s, ast.Assign) and ast.unparse(s.targets[0]) == "self._length"]
    if len(li) != 1:
        raise TranslationError(tpath, I.lineno, f"Table.__init__: exactly one assignment of self._length is expected (found {len(li)})")
    for n in ast.walk(I):
        if isinstance(n, ast.Attribute) and n.attr == "_length" and isinstance(n.ctx, ast.Store) and n is not body[li[0]].targets[0]:
            raise TranslationError(tpath, n.lineno, "Table.__init__: self._length is assigned twice")
    tr = Tr(tpath, "Table.__init__", "initial", None)
    length_txt = tr.nat(body[li[0]].value)
    guards = [s for s in body if isinstance(s, ast.If) and len(s.body) == 1 and isinstance(s.body[0], ast.Raise) and not s.orelse
              and "self._length" in ast.unparse(s.test)]
    if len(guards) != 1 or body.index(guards[0]) < li[0]:
        raise TranslationError(tpath, I.lineno, "Table.__init__: one `if <test on self._length>: raise ...` after the assignment is expected")
    if not ast.unparse(guards[0].body[0].exc).startswith("SerifValueError("):
        raise TranslationError(tpath, guards[0].lineno, "Table.__init__: the guard must raise SerifValueError")
    for s in body[:body.index(guards[0])]:
        if s is body[li[0]]:
            continue
        # before the guard `initial` may only be rebuilt from a dict (one column per item): lengths are those of the values
        if isinstance(s, ast.If) and ast.unparse(s.test) == "isinstance(initial, dict)" and not s.orelse:
            continue
        raise TranslationError(tpath, s.lineno, f"Table.__init__: unexpected statement before the guard: `{ast.unparse(s).splitlines()[0][:60]}`")
    tr = Tr(tpath, "Table.__init__", "initial", "self._length")
    refuse = tr.test(guards[0].test)
    lines["init_refuses"] = [body[li[0]].lineno, guards[0].end_lineno]

    # ---- Table.__setattr__: the replacement-column guards ---------------------------------------------------------------
    S = method(tt, tpath, "Table", "__setattr__")
    sg = [n for n in ast.walk(S) if isinstance(n, ast.If) and not n.orelse and len(n.body) == 1 and isinstance(n.body[0], ast.Raise)
          and "len(value)" in ast.unparse(n.test)]
    if len(sg) != 2 or ast.unparse(sg[0].test) != ast.unparse(sg[1].test):
        raise TranslationError(tpath, S.lineno, f"Table.__setattr__: two identical length guards on `value` are expected (found {len(sg)})")
    stores = [n for n in ast.walk(S) if isinstance(n, ast.Call) and ast.unparse(n.func) == "object.__setattr__"
              and len(n.args) == 3 and ast.unparse(n.args[1]) == "'_underlying'"]
    if len(stores) != 2 or not all(any(g.lineno < st.lineno for g in sg) for st in stores) or sorted(g.lineno for g in sg)[1] > max(st.lineno for st in stores) \
            or not (sg[0].lineno < stores[0].lineno or sg[0].lineno < stores[1].lineno):
        raise TranslationError(tpath, S.lineno, "Table.__setattr__: each of the two column replacements must be preceded by its length guard")
    ordered = sorted(sg + stores, key=lambda n: n.lineno)
    if [n in sg for n in ordered] != [True, False, True, False]:
        raise TranslationError(tpath, S.lineno, "Table.__setattr__: expected guard, replacement, guard, replacement in source order")

    class TS(Tr):
        def test(self, t):
            if ast.unparse(t) == "self._underlying":
                return "(negb (Nat.eqb ncols 0))"
            return super().test(t)

        def nat(self, e):
            if ast.unparse(e) == "len(value)":
                return "vlen"
            return super().nat(e)
    ts = TS(tpath, "Table.__setattr__", "\0", "self._length")
    setg = ts.test(sg[0].test)
    lines["setattr_refuses"] = [sg[0].lineno, sg[1].end_lineno]

    text = (f"(* vector.py:{O.lineno}-{ob[0].end_lineno} Vector.__new__: is the result a Table? (lens = the lengths of the elements) *)\n"
            f"Definition new_makes_table (all_vectors : bool) (lens : list nat) : bool :=\n  {disp}.\n\n"
            f"(* table.py:{body[li[0]].lineno} Table.__init__: self._length *)\n"
            f"Definition init_length (lens : list nat) : nat :=\n  {length_txt}.\n\n"
            f"(* table.py:{guards[0].lineno} Table.__init__: the guard that raises SerifValueError *)\n"
            f"Definition init_refuses (lens : list nat) : bool :=\n  let len_ := init_length lens in\n  {refuse}.\n\n"
            f"(* table.py:{sg[0].lineno}, {sg[1].lineno} Table.__setattr__: the guard of both column replacements (ncols = len(self._underlying)) *)\n"
            f"Definition setattr_refuses (ncols len_ vlen : nat) : bool :=\n  {setg}.\n")
    notes.append("rectangularity guards seen through column lengths (see harness/translate_rect.py): Vector.__new__'s dispatch, "
                 "Table.__init__'s length and guard, the two replacement guards of Table.__setattr__")
    head = ("(* GenRect.v — GENERATED by harness/translate_rect.py from vector.py and table.py; do not edit.\n"
            + "".join(f"   {n}\n" for n in notes).replace("*)", "* )") + "*)\n" + IMPORTS)
    return head + text, {"lines": lines, "notes": notes}


if __name__ == "__main__":
    import sys
    t, m = translate_rect(Path(sys.argv[1] if len(sys.argv) > 1 else "/repo/src/serif"))
    print(t)
