"""Entry point: ./check Cxx [--tier quick|thorough] [--replay path]"""
import argparse
import importlib
import os
import sys

from harness import core


def main():
    ap = argparse.ArgumentParser()
    ap.add_argument("pid")
    ap.add_argument("--tier", default=os.environ.get("VERIF_TIER", "quick"), choices=["quick", "thorough"])
    ap.add_argument("--replay")
    ap.add_argument("--seed", type=int, default=int(os.environ.get("VERIF_SEED", "20260926")))
    a = ap.parse_args()
    mod = importlib.import_module("harness.props." + a.pid.lower())
    sys.exit(core.run_property(mod, a.tier, a.seed, replay=a.replay))


if __name__ == "__main__":
    main()
