"""Entry point: ./check Cxx [--tier quick|thorough] [--replay path]"""
import argparse
import importlib
import os
import sys

from harness import core


def main():
    ap = argparse.ArgumentParser()
    ap.add_argument("pid")
    ap.add_argument("--tier", default=os.environ.get("VERIF_TIER", "quick"), choices=["quick", "thorough"])
    ap.add_argument("--replay")
    ap.add_argument("--seed", type=int, default=int(os.environ.get("VERIF_SEED", "20260926")))
    a = ap.parse_args()
    mod = importlib.import_module("harness.props." + a.pid.lower())
    try:
        rc = core.run_property(mod, a.tier, a.seed, replay=a.replay)
    except Exception as e:                                   # noqa: BLE001
        # the machinery itself could not run to the end (e.g. the library under test no longer imports, or an internal helper
        # the observers rely on is gone): the property is not shown to hold - say so in the agreed form instead of a bare traceback
        import traceback
        tb = traceback.format_exc()
        sys.stderr.write(tb)
        path = core.write_replay(mod.PID, "crash", {
            "property": mod.PID, "obligation": "the check could not be carried out",
            "why": f"{type(e).__name__}: {e}"[:500], "traceback": tb[-3000:], "tier": a.tier, "seed": a.seed,
            "repo": str(core.REPO)})
        print(f"# {mod.PID}: the check could not be carried out: {type(e).__name__}: {str(e)[:200]}")
        print(f"VIOLATION property={mod.PID} replay={path} no-failing-input-found")
        rc = 1
    sys.exit(rc)


if __name__ == "__main__":
    main()
