"""Implementation-side runner: executed in a fresh subprocess with PYTHONPATH=/repo/src.
Reads a JSON list of cases on stdin, prints the JSON list of observations."""
import importlib
import json
import sys
import warnings


def main():
    warnings.simplefilter("ignore")
    mod = importlib.import_module("harness.props." + sys.argv[1])
    cases = json.load(sys.stdin)
    if hasattr(mod, "observe_all"):
        out = mod.observe_all(cases)
    else:
        out = [mod.observe(c) for c in cases]
    json.dump(out, sys.stdout, default=str)


if __name__ == "__main__":
    main()
