"""harness/translate_csvreader.py — fail-closed recogniser of csv._read_csv_from_file (GenCsvReader.v): from the record list
that csv.reader delivers to the table.

The body must be, in this order (docstring, local imports and comments aside):
    reader = csv.reader(file_obj, delimiter=delimiter)
    all_rows = list(reader)
    if not all_rows: return Table()
    if has_header: header = all_rows[0]; rows = all_rows[1:]
    else:          header = [f"col_{i}" for i in range(len(all_rows[0]))]; rows = all_rows
    if not rows: return Table([Vector([], name=col) for col in header])
    num_cols = len(header)
    columns = []
    for col_idx in range(num_cols):
        column_data = []
        for row in rows:
            if col_idx < len(row): value = row[col_idx]; column_data.append(_infer_type(value))
            else:                  column_data.append(None)
        columns.append(Vector(column_data, name=header[col_idx]))
    return Table(columns)
Rendering: lists are lists; `for ... append` over a fresh list is a map; `row[col_idx]` under `col_idx < len(row)` is
nth_error; Vector(data, name=n) / Table(cols) are Model/Csv.vector_of / table_of (typing by inference, rectangularity check);
_infer_type is the parameter conv (GenCsv.v translates it); csv.reader is outside (the record list is the input)."""
import ast
from pathlib import Path


class TranslationError(Exception):           # the same shape as harness.translate.TranslationError (caught there by name)
    def __init__(self, file, lineno, what):
        self.file, self.lineno, self.what = str(file), lineno, what
        super().__init__(f"{Path(str(file)).name}:{lineno}: {what}")


IMPORTS = ("From Coq Require Import List Bool Arith.\nFrom Serif Require Import Base.PyVal Model.Dtype Model.Csv.\nImport ListNotations.\n")

EXPECT = [
    "reader = csv.reader(file_obj, delimiter=delimiter)",
    "all_rows = list(reader)",
    "if not all_rows:\n    return Table()",
    "if has_header:\n    header = all_rows[0]\n    rows = all_rows[1:]\nelse:\n    header = [f'col_{i}' for i in range(len(all_rows[0]))]\n    rows = all_rows",
    "if not rows:\n    return Table([Vector([], name=col) for col in header])",
    "num_cols = len(header)",
    "columns = []",
    "for col_idx in range(num_cols):\n    column_data = []\n    for row in rows:\n        if col_idx < len(row):\n            value = row[col_idx]\n"
    "            column_data.append(_infer_type(value))\n        else:\n            column_data.append(None)\n"
    "    columns.append(Vector(column_data, name=header[col_idx]))",
    "return Table(columns)",
]


def translate_csv_reader(src: Path):
    path = src / "csv.py"
    tree = ast.parse(path.read_text(), filename=str(path))
    fs = [n for n in tree.body if isinstance(n, ast.FunctionDef) and n.name == "_read_csv_from_file"]
    if len(fs) != 1 or fs[0].decorator_list:
        raise TranslationError(path, 0, f"_read_csv_from_file: found {len(fs)} plain definitions")
    F = fs[0]
    a = F.args
    if [x.arg for x in a.args] != ["file_obj"] or [x.arg for x in a.kwonlyargs] != ["delimiter", "has_header"] or a.vararg or a.kwarg \
            or any(d is not None for d in a.kw_defaults):
        raise TranslationError(path, F.lineno, "_read_csv_from_file: parameters are not (file_obj, *, delimiter, has_header)")
    body = []
    for s in F.body:
        if isinstance(s, ast.Expr) and isinstance(s.value, ast.Constant) and isinstance(s.value.value, str):
            continue
        if isinstance(s, ast.ImportFrom) and ast.unparse(s) in ("from .table import Table", "from .vector import Vector"):
            continue
        body.append(s)
    if len(body) != len(EXPECT):
        raise TranslationError(path, F.lineno, f"_read_csv_from_file: {len(body)} statements, expected {len(EXPECT)}")
    for s, want in zip(body, EXPECT):
        got = ast.unparse(s)
        if got != want:
            raise TranslationError(path, s.lineno, f"_read_csv_from_file: expected `{want.splitlines()[0]} ...`, found "
                                                   f"`{got.splitlines()[0][:80]}` (the statement differs from the recognised shape)")
    if not any(isinstance(n, ast.Import) and any(al.name == "csv" and al.asname is None for al in n.names) for n in tree.body):
        raise TranslationError(path, 0, "`import csv` at module level is missing")
    it = [n for n in tree.body if isinstance(n, ast.FunctionDef) and n.name == "_infer_type"]
    if len(it) != 1:
        raise TranslationError(path, 0, f"_infer_type: found {len(it)} definitions")
    ln = {i: s.lineno for i, s in enumerate(body)}
    text = (f"(* csv.py:{F.lineno}-{F.end_lineno} _read_csv_from_file, from `all_rows = list(reader)` on *)\n"
            "Definition read_csv_from_file (has_header : bool) (all_rows : list (list T)) : outcome (table T) :=\n"
            f"  match all_rows with\n  | [] => table_of []                                             (* L{ln[2]} *)\n"
            "  | _ :: _ =>\n"
            f"    let header := if has_header then map NText (hd [] all_rows)                  (* L{ln[3]} *)\n"
            "                  else map (fun py_i => NGen py_i) (seq 0 (length (hd [] all_rows))) in\n"
            "    let rows := if has_header then tl all_rows else all_rows in\n"
            f"    match rows with\n    | [] => table_of (map (fun py_col => vector_of py_col []) header)             (* L{ln[4]} *)\n"
            "    | _ :: _ =>\n"
            f"      let num_cols := length header in                                         (* L{ln[5]} *)\n"
            f"      table_of (map (fun py_col_idx =>                                          (* L{ln[7]} *)\n"
            "                  let column_data := map (fun py_row => match nth_error py_row py_col_idx with\n"
            "                                                      | Some py_value => conv py_value\n"
            "                                                      | None => None end) rows in\n"
            "                  vector_of (nth py_col_idx header (NGen 0)) column_data) (seq 0 num_cols))\n"
            "    end\n  end.\n")
    notes = ["strict shape (see harness/translate_csvreader.py); csv.reader and the opening of the file are outside: the record list is "
             "the input; _infer_type is the parameter conv (GenCsv.v); Vector(...) / Table(...) are Model/Csv.vector_of / table_of"]
    head = ("(* GenCsvReader.v — GENERATED by harness/translate_csvreader.py from csv.py (_read_csv_from_file); do not edit.\n"
            + "".join(f"   {n}\n" for n in notes).replace("*)", "* )") + "*)\n" + IMPORTS
            + "\nSection Reader.\nVariable T : Type.\nVariable conv : T -> cval.\n\n")
    return head + text + "\nEnd Reader.\n", {"lines": {"read_csv_from_file": [F.lineno, F.end_lineno]}, "notes": notes}
