"""harness/translate_alias.py — fail-closed translator of alias_tracker.py (GenAlias.v).

The tracker is imperative code over ONE dict, `self._registry : id(tuple) -> list of weakref.ref(Vector)`.  It is
translated by state passing: every method becomes a function of the registry (an association list, Model/Heap.v's aget /
aset / adel / rget) returning the new registry (and, for check_writable, True / raised AliasError as a bool).  A weak
reference is the handle of its referent plus the section variable `alive : nat -> bool` - `r()` is
`deref r = if alive r then Some r else None`; `weakref.ref(vec)` is `vec`; EqAlias.v assumes `alive vec = true` where the
code holds `vec` itself.

The language accepted (anything else is a TranslationError; local names are free):
  _cleanup_dead_refs   return [r for r in X if r() is not None]
  statements
    X = self._registry.get(K)  followed at once by  `if not X: return [True]`      (None and [] both leave)
    X = self._registry.setdefault(K, [])
    X = self._cleanup_dead_refs(Y)
    X = [r() for r in Y if r() is not None]
    for r in X: if r() is V: return
    A = []  followed at once by  for r in X: [o = r()] (if <o is None | o is V>: continue)* A.append(r)
    self._registry[K] = X          del self._registry[K]          if X: <registry stmts> else: <registry stmts>
    X.append(weakref.ref(V))       only while X IS the list stored under a key (tracked: setdefault / get / item
                                   assignment bind a name to the stored list, re-binding the name releases it) - the
                                   append then also changes the registry
    if K == id(()): return True    if len(X) <= n: return True    return | return True    raise AliasError(...)
What is NOT translated: CPython's weak references themselves (a dead reference answers None for good; a live one answers
its referent), `id()` of a tuple as an injective name of live storage, the identity of the empty tuple (Model/Heap.EMPTY)."""
import ast
from pathlib import Path


class TranslationError(Exception):           # the same shape as harness.translate.TranslationError (caught there by name)
    def __init__(self, file, lineno, what):
        self.file, self.lineno, self.what = str(file), lineno, what
        super().__init__(f"{Path(str(file)).name}:{lineno}: {what}")


IMPORTS = "From Coq Require Import List Bool Arith.\nFrom Serif Require Import Model.Heap.\nImport ListNotations.\n"
PRELUDE = ("Section Alias.\nVariable alive : nat -> bool.\n"
           "Definition deref (r : nat) : option nat := if alive r then Some r else None.\n"
           "Definition is_none (o : option nat) : bool := match o with None => true | Some _ => false end.\n"
           "Definition ref_is (o : option nat) (v : nat) : bool := match o with Some x => Nat.eqb x v | None => false end.\n\n")
REG = "list (nat * list nat)"
RESERVED = {"alive", "deref", "is_none", "ref_is", "reg", "filter", "length", "map", "rget", "aget", "aset", "adel", "true", "false"}


def _is_doc(s):
    return isinstance(s, ast.Expr) and isinstance(s.value, ast.Constant) and isinstance(s.value.value, str)


def translate_alias(src: Path):
    path = src / "alias_tracker.py"
    tree = ast.parse(path.read_text(), filename=str(path))
    cls = [n for n in tree.body if isinstance(n, ast.ClassDef) and n.name == "_AliasTracker"]
    if len(cls) != 1 or cls[0].bases or cls[0].decorator_list or cls[0].keywords:
        raise TranslationError(path, 0, f"_AliasTracker: found {len(cls)} plain class definitions")
    C = cls[0]
    if not any(isinstance(n, ast.Import) and any(al.name == "weakref" and al.asname is None for al in n.names) for n in tree.body):
        raise TranslationError(path, 0, "`import weakref` at module level is missing")
    single = [n for n in tree.body if isinstance(n, ast.Assign) and ast.unparse(n) == "_ALIAS_TRACKER = _AliasTracker()"]
    if len(single) != 1:
        raise TranslationError(path, 0, "the singleton `_ALIAS_TRACKER = _AliasTracker()` is missing")
    methods = {}
    for n in C.body:
        if _is_doc(n):
            continue
        if not isinstance(n, ast.FunctionDef) or n.decorator_list or n.name in methods:
            raise TranslationError(path, n.lineno, "_AliasTracker: only plain, distinct methods are expected in the class body")
        methods[n.name] = n
    want = ["__init__", "_cleanup_dead_refs", "register", "unregister", "check_writable"]
    if sorted(methods) != sorted(want):
        raise TranslationError(path, C.lineno, f"_AliasTracker: methods are {sorted(methods)}, expected {sorted(want)}")
    for n in ast.walk(C):
        if isinstance(n, ast.Attribute) and n.attr == "_registry" and not (isinstance(n.value, ast.Name) and n.value.id == "self"):
            raise TranslationError(path, n.lineno, "_registry is reached through something other than self")
        if isinstance(n, ast.Name) and n.id in ("weakref", "id", "len", "AliasError") and isinstance(n.ctx, ast.Store):
            raise TranslationError(path, n.lineno, f"`{n.id}` is re-bound")
        if isinstance(n, (ast.Global, ast.Nonlocal, ast.Lambda, ast.Yield, ast.YieldFrom, ast.Await, ast.Try, ast.With, ast.While)):
            raise TranslationError(path, n.lineno, f"{type(n).__name__} inside _AliasTracker")

    init = [s for s in methods["__init__"].body if not _is_doc(s)]
    if [a.arg for a in methods["__init__"].args.args] != ["self"] or len(init) != 1 or ast.unparse(init[0]) != "self._registry = {}":
        raise TranslationError(path, methods["__init__"].lineno, "__init__ must be exactly `self._registry = {}`")

    def params(F, names):
        a = F.args
        if [x.arg for x in a.args] != ["self"] + names or a.vararg or a.kwarg or a.kwonlyargs or a.posonlyargs or a.defaults:
            raise TranslationError(path, F.lineno, f"{F.name}: parameters are not (self, {', '.join(names)})")

    def nm(x):
        return x + "_" if x in RESERVED else x

    # ---- expressions over a reference variable r --------------------------------------------------------------
    def call_of(node, r):          # `r()`
        return isinstance(node, ast.Call) and isinstance(node.func, ast.Name) and node.func.id == r and not node.args and not node.keywords

    def ref_test(F, node, r, objs, scope):
        """boolean test about the referent of r: `<r() | o> is None`, `... is not None`, `... is V` -> Gallina bool"""
        err = TranslationError(path, node.lineno, f"{F.name}: test `{ast.unparse(node)}` is not `r() is None`, `r() is not None` or `r() is <vector>`")
        if not (isinstance(node, ast.Compare) and len(node.ops) == 1 and isinstance(node.ops[0], (ast.Is, ast.IsNot))):
            raise err
        left, right = node.left, node.comparators[0]
        if call_of(left, r):
            o = f"(deref {nm(r)})"
        elif isinstance(left, ast.Name) and left.id in objs:
            o = nm(left.id)
        else:
            raise err
        if isinstance(right, ast.Constant) and right.value is None:
            t = f"is_none {o}"
        elif isinstance(right, ast.Name) and right.id in scope and scope[right.id] == "vec" and isinstance(node.ops[0], ast.Is):
            t = f"ref_is {o} {nm(right.id)}"
        else:
            raise err
        return f"negb ({t})" if isinstance(node.ops[0], ast.IsNot) else t

    def live_filter(F, node, scope):
        """[r for r in X if r() is not None] -> (X, Gallina predicate on r)"""
        if not (isinstance(node, ast.ListComp) and len(node.generators) == 1):
            return None
        g = node.generators[0]
        if g.is_async or len(g.ifs) != 1 or not isinstance(g.target, ast.Name) or not isinstance(g.iter, ast.Name):
            return None
        r = g.target.id
        return r, g.iter.id, node.elt, ref_test(F, g.ifs[0], r, set(), scope)

    # ---- _cleanup_dead_refs ----------------------------------------------------------------------------------------
    Fc = methods["_cleanup_dead_refs"]
    params(Fc, ["refs"])
    cb = [s for s in Fc.body if not _is_doc(s)]
    lf = live_filter(Fc, cb[0].value, {}) if len(cb) == 1 and isinstance(cb[0], ast.Return) and cb[0].value is not None else None
    if lf is None or lf[1] != "refs" or not (isinstance(lf[2], ast.Name) and lf[2].id == lf[0]):
        raise TranslationError(path, Fc.lineno, "_cleanup_dead_refs must be `return [r for r in refs if <test on r()>]`")
    defs = [f"(* alias_tracker.py:{Fc.lineno}-{Fc.end_lineno} *)\nDefinition cleanup_dead_refs (refs : list nat) : list nat :=\n"
            f"  filter (fun {nm(lf[0])} => {lf[3]}) refs.\n"]
    lines = {"cleanup_dead_refs": [Fc.lineno, Fc.end_lineno]}
    notes = []

    # ---- the three stateful methods --------------------------------------------------------------------------------
    def method(F, with_result):
        params(F, ["vec", "tuple_id"])
        scope = {"vec": "vec", "tuple_id": "key"}          # name -> kind: vec | key | list | opt | owners
        stored = {}                                        # list name -> key expression under which it IS the stored list
        E = lambda node, what: TranslationError(path, getattr(node, "lineno", F.lineno), f"{F.name}: {what}")   # noqa: E731

        def key(node):
            if isinstance(node, ast.Name) and scope.get(node.id) == "key":
                return nm(node.id)
            raise E(node, f"`{ast.unparse(node)}` is not a storage identity in scope")

        def lst(node):
            if isinstance(node, ast.Name) and scope.get(node.id) in ("list", "owners"):
                return nm(node.id)
            raise E(node, f"`{ast.unparse(node)}` is not a list in scope")

        def reg_item(node):        # self._registry[K] -> K
            if isinstance(node, ast.Subscript) and ast.unparse(node.value) == "self._registry":
                return key(node.slice)
            return None

        def reg_call(node, meth, nargs):
            if isinstance(node, ast.Call) and isinstance(node.func, ast.Attribute) and node.func.attr == meth \
                    and ast.unparse(node.func.value) == "self._registry" and len(node.args) == nargs and not node.keywords:
                return node.args
            return None

        def ret(node):
            if with_result:
                if isinstance(node, ast.Raise):
                    if node.cause is None and isinstance(node.exc, ast.Call) and isinstance(node.exc.func, ast.Name) and node.exc.func.id == "AliasError":
                        return "(reg, false)"
                    raise E(node, "raise of something other than AliasError(...)")
                if isinstance(node, ast.Return) and isinstance(node.value, ast.Constant) and node.value.value is True:
                    return "(reg, true)"
                raise E(node, "check_writable returns True or raises AliasError")
            if isinstance(node, ast.Return) and node.value is None:
                return "reg"
            raise E(node, "a bare `return` is expected")

        def only_return(stmts):
            ss = [s for s in stmts if not _is_doc(s)]
            if len(ss) == 1 and isinstance(ss[0], (ast.Return, ast.Raise)):
                return ret(ss[0])
            return None

        def rebind(x, kind):
            if x in ("self",) or scope.get(x) in ("vec", "key"):
                raise TranslationError(path, F.lineno, f"{F.name}: parameter `{x}` is re-bound")
            scope[x] = kind
            stored.pop(x, None)

        def reg_stmts(stmts, ind):
            """a branch made of registry statements only -> Gallina expression of the new registry"""
            out = ""
            for s in stmts:
                if _is_doc(s):
                    continue
                if isinstance(s, ast.Assign) and len(s.targets) == 1 and reg_item(s.targets[0]):
                    out += f"let reg := aset reg {reg_item(s.targets[0])} {lst(s.value)} in "
                elif isinstance(s, ast.Delete) and len(s.targets) == 1 and reg_item(s.targets[0]):
                    out += f"let reg := adel reg {reg_item(s.targets[0])} in "
                else:
                    raise E(s, f"`{ast.unparse(s).splitlines()[0][:60]}` inside a branch (only registry assignments / deletions are accepted there)")
            return out + "reg"

        def block(stmts, ind):
            stmts = [s for s in stmts if not _is_doc(s)]
            if not stmts:
                if with_result:
                    raise E(F, "falls off the end (would return None)")
                return ind + "reg\n"
            s, rest = stmts[0], stmts[1:]
            if isinstance(s, (ast.Return, ast.Raise)):
                if rest:
                    raise E(rest[0], "statement after return / raise")
                return ind + ret(s) + "\n"
            # X = ...
            if isinstance(s, ast.Assign) and len(s.targets) == 1 and isinstance(s.targets[0], ast.Name):
                x, v = s.targets[0].id, s.value
                a = reg_call(v, "get", 1)
                if a is not None:
                    k = key(a[0])
                    if not rest or not (isinstance(rest[0], ast.If) and not rest[0].orelse and ast.unparse(rest[0].test) == f"not {x}"):
                        raise E(s, f"`{x} = self._registry.get(...)` must be followed at once by `if not {x}: return`")
                    leave = only_return(rest[0].body)
                    if leave is None:
                        raise E(rest[0], f"`if not {x}:` must only return")
                    rebind(x, "list")
                    stored[x] = k
                    return (f"{ind}match aget reg {k} with\n{ind}| None => {leave}\n{ind}| Some {nm(x)} =>\n"
                            f"{ind}match {nm(x)} with [] => {leave} | _ :: _ =>\n" + block(rest[1:], ind) + f"{ind}end end\n")
                a = reg_call(v, "setdefault", 2)
                if a is not None:
                    k = key(a[0])
                    if ast.unparse(a[1]) != "[]":
                        raise E(s, "setdefault with a default other than []")
                    rebind(x, "list")
                    stored[x] = k
                    return (f"{ind}let reg := match aget reg {k} with Some _ => reg | None => aset reg {k} [] end in\n"
                            f"{ind}let {nm(x)} := rget reg {k} in\n" + block(rest, ind))
                if isinstance(v, ast.Call) and ast.unparse(v.func) == "self._cleanup_dead_refs" and len(v.args) == 1 and not v.keywords:
                    y = lst(v.args[0])
                    rebind(x, "list")
                    return f"{ind}let {nm(x)} := cleanup_dead_refs {y} in\n" + block(rest, ind)
                lf2 = live_filter(F, v, scope)
                if lf2 is not None:
                    r, y, elt, test = lf2
                    if scope.get(y) != "list":
                        raise E(v, f"`{y}` is not a list of references in scope")
                    if call_of(elt, r) and test == f"negb (is_none (deref {nm(r)}))":
                        rebind(x, "owners")
                        return (f"{ind}let {nm(x)} := flat_map (fun {nm(r)} => match deref {nm(r)} with Some o => [o] | None => [] end) "
                                f"{nm(y)} in\n" + block(rest, ind))
                    if isinstance(elt, ast.Name) and elt.id == r:
                        rebind(x, "list")
                        return f"{ind}let {nm(x)} := filter (fun {nm(r)} => {test}) {nm(y)} in\n" + block(rest, ind)
                    raise E(v, "comprehension is neither `[r for r in X if ...]` nor `[r() for r in X if r() is not None]`")
                if ast.unparse(v) == "[]":
                    # A = [] ; for r in X: ... A.append(r)
                    if not rest or not isinstance(rest[0], ast.For) or rest[0].orelse:
                        raise E(s, f"`{x} = []` must be followed at once by the loop that fills it")
                    L = rest[0]
                    if not isinstance(L.target, ast.Name):
                        raise E(L, "loop target")
                    r, y = L.target.id, lst(L.iter)
                    if scope.get(L.iter.id) != "list":
                        raise E(L, "the loop must run over a list of references")
                    objs, conds, body = set(), [], [b for b in L.body if not _is_doc(b)]
                    pre = ""
                    if body and isinstance(body[0], ast.Assign) and len(body[0].targets) == 1 and isinstance(body[0].targets[0], ast.Name) \
                            and call_of(body[0].value, r):
                        o = body[0].targets[0].id
                        if o in scope or o == r or o == x:
                            raise E(body[0], f"`{o}` shadows a name in scope")
                        objs.add(o)
                        pre = f"let {nm(o)} := deref {nm(r)} in "
                        body = body[1:]
                    while body and isinstance(body[0], ast.If):
                        b = body[0]
                        bb = [q for q in b.body if not _is_doc(q)]
                        if b.orelse or len(bb) != 1 or not isinstance(bb[0], ast.Continue):
                            raise E(b, "inside the filling loop only `if <test>: continue` is accepted")
                        conds.append(f"negb ({ref_test(F, b.test, r, objs, scope)})")
                        body = body[1:]
                    if len(body) != 1 or ast.unparse(body[0]) != f"{x}.append({r})":
                        raise E(L, f"the filling loop must end with `{x}.append({r})`")
                    rebind(x, "list")
                    pred = " && (".join(conds) + " && true" + ")" * (len(conds) - 1) if conds else "true"
                    return f"{ind}let {nm(x)} := filter (fun {nm(r)} => {pre}{pred}) {y} in\n" + block(rest[1:], ind)
                raise E(s, f"assignment `{ast.unparse(s)[:70]}`")
            # self._registry[K] = X
            if isinstance(s, ast.Assign) and len(s.targets) == 1 and reg_item(s.targets[0]):
                k, x = reg_item(s.targets[0]), lst(s.value)
                for other in [n for n, kk in stored.items() if kk == k]:
                    stored.pop(other)
                stored[s.value.id] = k
                return f"{ind}let reg := aset reg {k} {x} in\n" + block(rest, ind)
            if isinstance(s, ast.Delete) and len(s.targets) == 1 and reg_item(s.targets[0]):
                k = reg_item(s.targets[0])
                for other in [n for n, kk in stored.items() if kk == k]:
                    stored.pop(other)
                return f"{ind}let reg := adel reg {k} in\n" + block(rest, ind)
            # X.append(weakref.ref(V))
            if isinstance(s, ast.Expr) and isinstance(s.value, ast.Call) and isinstance(s.value.func, ast.Attribute) \
                    and s.value.func.attr == "append" and isinstance(s.value.func.value, ast.Name) and len(s.value.args) == 1:
                x, arg = s.value.func.value.id, s.value.args[0]
                if not (isinstance(arg, ast.Call) and ast.unparse(arg.func) == "weakref.ref" and len(arg.args) == 1 and not arg.keywords
                        and isinstance(arg.args[0], ast.Name) and scope.get(arg.args[0].id) == "vec"):
                    raise E(s, "only `X.append(weakref.ref(<vector>))` is accepted")
                if scope.get(x) != "list" or x not in stored:
                    raise E(s, f"`{x}.append(...)`: `{x}` is not known to be the list the registry holds (the append would be lost, "
                               f"or change a list whose owner is not tracked)")
                notes.append(f"alias_tracker.py:{s.lineno} {F.name}: `{x}.append(...)` changes the list stored under {stored[x]} - "
                             f"translated as an update of the registry")
                return (f"{ind}let {nm(x)} := {nm(x)} ++ [{nm(arg.args[0].id)}] in\n{ind}let reg := aset reg {stored[x]} {nm(x)} in\n"
                        + block(rest, ind))
            # for r in X: if r() is V: return
            if isinstance(s, ast.For) and not s.orelse and isinstance(s.target, ast.Name):
                r, y = s.target.id, lst(s.iter)
                body = [b for b in s.body if not _is_doc(b)]
                if len(body) == 1 and isinstance(body[0], ast.If) and not body[0].orelse:
                    leave = only_return(body[0].body)
                    if leave is not None:
                        t = ref_test(F, body[0].test, r, set(), scope)
                        return f"{ind}if existsb (fun {nm(r)} => {t}) {y} then {leave} else\n" + block(rest, ind)
                raise E(s, "a loop that is neither the early-return search nor the filling loop")
            if isinstance(s, ast.If):
                leave = only_return(s.body) if not s.orelse else None
                t = s.test
                if leave is not None:
                    if isinstance(t, ast.Compare) and len(t.ops) == 1 and isinstance(t.ops[0], ast.Eq) and ast.unparse(t.comparators[0]) == "id(())":
                        return f"{ind}if Nat.eqb {key(t.left)} EMPTY then {leave} else\n" + block(rest, ind)
                    if isinstance(t, ast.Compare) and len(t.ops) == 1 and isinstance(t.ops[0], (ast.LtE, ast.Lt)) \
                            and isinstance(t.left, ast.Call) and isinstance(t.left.func, ast.Name) and t.left.func.id == "len" \
                            and len(t.left.args) == 1 and isinstance(t.comparators[0], ast.Constant) \
                            and type(t.comparators[0].value) is int and 0 <= t.comparators[0].value <= 9:
                        n = t.comparators[0].value          # len(X) < n is written len(X) <= n - 1 (n >= 1), one form for the proofs
                        if isinstance(t.ops[0], ast.Lt):
                            if n == 0:
                                raise E(s, "`len(X) < 0` is never true")
                            n -= 1
                        return f"{ind}if Nat.leb (length {lst(t.left.args[0])}) {n} then {leave} else\n" + block(rest, ind)
                    raise E(s, f"test `{ast.unparse(t)}`")
                if s.orelse and isinstance(t, ast.Name) and scope.get(t.id) == "list":
                    saved = dict(stored)
                    a = reg_stmts(s.body, ind)
                    b = reg_stmts(s.orelse, ind)
                    stored.clear()
                    stored.update({n: k for n, k in saved.items() if f"reg {k} " not in a + b and f"adel reg {k}" not in a + b})
                    return f"{ind}let reg := match {nm(t.id)} with [] => {b} | _ :: _ => {a} end in\n" + block(rest, ind)
                raise E(s, f"`if {ast.unparse(t)}:` is not one of the accepted forms")
            raise E(s, f"statement `{ast.unparse(s).splitlines()[0][:70]}`")

        typ = f"{REG} * bool" if with_result else REG
        text = (f"(* alias_tracker.py:{F.lineno}-{F.end_lineno} *)\nDefinition {F.name} (reg : {REG}) (vec tuple_id : nat) : {typ} :=\n"
                + block(F.body, "  ").rstrip("\n") + ".\n")
        lines[F.name] = [F.lineno, F.end_lineno]
        return text

    defs.append(method(methods["register"], False))
    defs.append(method(methods["unregister"], False))
    defs.append(method(methods["check_writable"], True))
    notes.insert(0, "state-passing translation of _AliasTracker (see harness/translate_alias.py): weak references are handles under the "
                    "liveness predicate `alive`; id(()) is Model/Heap.EMPTY")
    head = ("(* GenAlias.v — GENERATED by harness/translate_alias.py from alias_tracker.py; do not edit.\n"
            + "".join(f"   {n}\n" for n in notes).replace("*)", "* )") + "*)\n" + IMPORTS + "\n" + PRELUDE)
    return head + "\n".join(defs) + "End Alias.\n", {"lines": lines, "notes": notes}


if __name__ == "__main__":
    import sys
    t, m = translate_alias(Path(sys.argv[1] if len(sys.argv) > 1 else "/repo/src/serif"))
    print(t)
