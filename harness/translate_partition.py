"""harness/translate_partition.py — fail-closed translator of the grouping loops of Table.aggregate and Table.window
(GenPartition.v): how rows are put into groups.

Source (table.py, both methods), in this order inside the method body (other statements may stand between them, but none
of them may mention the names involved):

    partition_index = {}
    pk_len = len(over)
    over_data = [c._underlying for c in over]
    row_keys = [None] * nrows                                   (window only)
    for <i> in range(nrows):
        key = tuple(over_data[<k>][<i>] for <k> in range(pk_len))
        row_keys[<i>] = key                                     (window only)
        bucket = partition_index.get(key)
        if bucket is None:
            partition_index[key] = [<i>]
        else:
            bucket.append(<i>)
    group_items = list(partition_index.items())

The translation (anything else is a TranslationError):
  a dict is an association list in insertion order (Base/GenPrelude: dict_get = first entry whose key is == to the probe,
  dict_set = replace that entry's VALUE in place - the stored key object stays - or append a new entry at the end);
  `bucket = d.get(key)` followed by `bucket.append(i)` is a write to the dict (the list is the dict's own value object);
  `for i in range(n)` is a left fold over 0..n-1; `list(d.items())` is the association list itself;
  `tuple(over_data[k][i] for k in range(pk_len))` is the list of the i-th cells of the key columns, in key order.
Key equality (tuple ==, after hashing) is the parameter keq."""
import ast
from pathlib import Path


class TranslationError(Exception):           # the same shape as harness.translate.TranslationError (caught there by name)
    def __init__(self, file, lineno, what):
        self.file, self.lineno, self.what = str(file), lineno, what
        super().__init__(f"{Path(str(file)).name}:{lineno}: {what}")


IMPORTS = ("From Coq Require Import List Bool Arith.\nFrom Serif Require Import Base.GenPrelude.\nImport ListNotations.\n")

NAMES = ("partition_index", "pk_len", "over_data", "row_keys", "group_items", "key", "bucket")
OWNED = ("partition_index", "pk_len", "over_data", "row_keys", "group_items", "bucket")   # `key` is re-used as a loop variable later


def _one(tree, path, cls, meth):
    cs = [n for n in tree.body if isinstance(n, ast.ClassDef) and n.name == cls]
    if len(cs) != 1:
        raise TranslationError(path, 0, f"class {cls}: found {len(cs)} definitions")
    ms = [n for n in ast.walk(cs[0]) if isinstance(n, (ast.FunctionDef, ast.AsyncFunctionDef)) and n.name == meth]
    if len(ms) != 1 or ms[0] not in cs[0].body or ms[0].decorator_list or isinstance(ms[0], ast.AsyncFunctionDef):
        raise TranslationError(path, 0, f"method {cls}.{meth}: found {len(ms)} plain definitions")
    return ms[0]


def _mentions(node, names):
    return sorted({n.id for n in ast.walk(node) if isinstance(n, ast.Name) and n.id in names})


def translate_method(path, M, window):
    err = lambda node, what: TranslationError(path, getattr(node, "lineno", M.lineno), f"Table.{M.name}: {what}")   # noqa: E731
    body = M.body
    # ---- the statements that touch the names, in order; nothing else may touch them (nested functions may READ group_items
    #      and row_keys: they are used after the loop)
    touching = []
    for st in body:
        if isinstance(st, ast.FunctionDef):
            w = {n.id for n in ast.walk(st) if isinstance(n, ast.Name) and n.id in OWNED and isinstance(n.ctx, ast.Store)}
            w |= {a.arg for a in ast.walk(st) if isinstance(a, ast.arg) and a.arg in ("partition_index", "over_data", "pk_len")}
            if w or _mentions(st, ("partition_index", "over_data", "pk_len", "bucket")):
                raise err(st, f"a nested function uses {sorted(w) or _mentions(st, NAMES)}")
            continue
        stores = {n.id for n in ast.walk(st) if isinstance(n, ast.Name) and n.id in OWNED and isinstance(n.ctx, ast.Store)}
        if stores or _mentions(st, ("partition_index", "over_data", "pk_len", "bucket")):
            touching.append(st)
    expect = ["partition_index = {}", "pk_len = len(over)", "over_data = [c._underlying for c in over]"]
    if window:
        expect.append("row_keys = [None] * nrows")
    if len(touching) != len(expect) + 2:
        raise err(M, f"expected {len(expect) + 2} statements touching the partition index, found {len(touching)}: "
                     f"{[ast.unparse(s).splitlines()[0][:50] for s in touching]}")
    for st, want in zip(touching, expect):
        if ast.unparse(st) != want:
            raise err(st, f"expected `{want}`, found `{ast.unparse(st).splitlines()[0][:80]}`")
    loop, after = touching[len(expect)], touching[len(expect) + 1]
    if ast.unparse(after) != "group_items = list(partition_index.items())":
        raise err(after, f"expected `group_items = list(partition_index.items())`, found `{ast.unparse(after)[:80]}`")
    for nm in ("over", "nrows"):
        first = body.index(touching[0])
        for st in body[first:body.index(after) + 1]:
            if any(isinstance(n, ast.Name) and n.id == nm and isinstance(n.ctx, ast.Store) for n in ast.walk(st)):
                raise err(st, f"`{nm}` is re-bound while the partition index is built")
    # ---- the loop
    if not (isinstance(loop, ast.For) and not loop.orelse and isinstance(loop.target, ast.Name)
            and ast.unparse(loop.iter) == "range(nrows)"):
        raise err(loop, "the loop is not `for <i> in range(nrows):`")
    i = loop.target.id
    if i in NAMES or i in ("over", "nrows"):
        raise err(loop, f"loop variable `{i}`")
    sts = list(loop.body)
    want_key = None
    if not sts or not (isinstance(sts[0], ast.Assign) and ast.unparse(sts[0].targets[0]) == "key" and len(sts[0].targets) == 1):
        raise err(loop, "the loop does not start with `key = ...`")
    kv = sts[0].value
    ok = (isinstance(kv, ast.Call) and isinstance(kv.func, ast.Name) and kv.func.id == "tuple" and len(kv.args) == 1
          and not kv.keywords and isinstance(kv.args[0], ast.GeneratorExp) and len(kv.args[0].generators) == 1)
    if ok:
        g = kv.args[0].generators[0]
        ok = (isinstance(g.target, ast.Name) and not g.ifs and not g.is_async and ast.unparse(g.iter) == "range(pk_len)"
              and g.target.id not in NAMES + (i, "over", "nrows")
              and ast.unparse(kv.args[0].elt) == f"over_data[{g.target.id}][{i}]")
    if not ok:
        raise err(sts[0], f"the key is not `tuple(over_data[<k>][{i}] for <k> in range(pk_len))`: `{ast.unparse(kv)[:80]}`")
    rest = sts[1:]
    if window:
        if not rest or ast.unparse(rest[0]) != f"row_keys[{i}] = key":
            raise err(loop, f"window: expected `row_keys[{i}] = key` after the key")
        rest = rest[1:]
    if len(rest) != 2 or ast.unparse(rest[0]) != "bucket = partition_index.get(key)":
        raise err(loop, f"expected `bucket = partition_index.get(key)` then one `if`, found "
                        f"{[ast.unparse(s).splitlines()[0][:50] for s in rest]}")
    br = rest[1]
    if not (isinstance(br, ast.If) and ast.unparse(br.test) == "bucket is None" and len(br.body) == 1 and len(br.orelse) == 1
            and ast.unparse(br.body[0]) == f"partition_index[key] = [{i}]"
            and ast.unparse(br.orelse[0]) == f"bucket.append({i})"):
        raise err(br, "the branch is not `if bucket is None: partition_index[key] = [<i>]  else: bucket.append(<i>)`")
    pre = "window" if window else "aggregate"
    text = (f"(* table.py:{touching[0].lineno}-{after.lineno} Table.{M.name}: the partition index *)\n"
            f"(* L{sts[0].lineno}: key = tuple(over_data[k][i] for k in range(pk_len)); pk_len = len(over) = length over_data *)\n"
            f"Definition {pre}_key (over_data : list (list cell)) (py_{i} : nat) : list cell :=\n"
            f"  map (fun py_k => nth py_{i} (nth py_k over_data []) None) (seq 0 (length over_data)).\n\n"
            f"(* L{rest[0].lineno}-{br.end_lineno}: bucket = partition_index.get(key); a new entry [i], or i appended to the dict's own list *)\n"
            f"Definition {pre}_step (partition_index : pdict) (key : list cell) (py_{i} : nat) : pdict :=\n"
            f"  let bucket := dict_get keq partition_index key in\n"
            f"  match bucket with\n"
            f"  | None => dict_set keq partition_index key [py_{i}]\n"
            f"  | Some b => dict_set keq partition_index key (b ++ [py_{i}])\n"
            f"  end.\n\n"
            f"(* L{loop.lineno}: for i in range(nrows); then group_items = list(partition_index.items()) *)\n"
            f"Definition {pre}_group_items (over_data : list (list cell)) (nrows : nat) : pdict :=\n"
            f"  fold_left (fun d py_{i} => {pre}_step d ({pre}_key over_data py_{i}) py_{i}) (seq 0 nrows) [].\n")
    if window:
        text += (f"\n(* L{sts[1].lineno}: row_keys[i] = key, for every i *)\n"
                 f"Definition window_row_keys (over_data : list (list cell)) (nrows : nat) : list (list cell) :=\n"
                 f"  map (window_key over_data) (seq 0 nrows).\n")
    return text, [touching[0].lineno, after.lineno]


def translate_partition(src: Path):
    path = src / "table.py"
    tree = ast.parse(path.read_text(), filename=str(path))
    parts, lines = [], {}
    for meth, window in (("aggregate", False), ("window", True)):
        t, ln = translate_method(path, _one(tree, path, "Table", meth), window)
        parts.append(t)
        lines[f"{meth}_group_items"] = ln
    notes = ["a dict is an association list in insertion order; key equality (tuple ==) is the parameter keq; "
             "`bucket.append(i)` on the list obtained by `.get` writes the dict's own value",
             "NOT translated: argument resolution and validation before the loop, what is done with group_items afterwards "
             "(GenReduce.v has the per-group functions; Model/Group.v the rest, tied by the correspondence checks)"]
    head = ("(* GenPartition.v — GENERATED by harness/translate_partition.py from table.py (Table.aggregate, Table.window);\n"
            "   do not edit.  How rows are put into groups: the partition index.\n"
            + "".join(f"   {n}\n" for n in notes).replace("*)", "* )") + "*)\n" + IMPORTS
            + "\nSection Partition.\nVariable X : Type.\nNotation cell := (option X).\n"
              "Variable keq : list cell -> list cell -> bool.          (* tuple == *)\n"
              "Notation pdict := (list (list cell * list nat)).\n\n")
    return head + "\n".join(parts) + "\nEnd Partition.\n", {"lines": lines, "notes": notes}


# ---- the right-side hash index of the three joins (GenJoinIndex.v) ------------------------------------------------

JOINS = (("inner_join", "inner"), ("join", "left"), ("full_join", "full"))
IMPORTS_JI = ("From Coq Require Import List Bool Arith.\nFrom Serif Require Import Base.GenPrelude.\nImport ListNotations.\n")


def translate_join_method(path, M, pre):
    """Recognises, in one join method:
           right_index = {}                              [right_index_get = right_index.get  - before or after the loop]
           check_right_unique = expect in (...)          (the tuple itself is GenJoin.v's subject)
           if check_right_unique: duplicates = {}
           for <j> in range(right_nrows):
               key = tuple(col[<j>] for col in right_keys)
               if validate_hashable: <X>._validate_key_tuple_hashable(key, right_keys, <j>)
               bucket = right_index.get(key) | right_index_get(key)
               if bucket is None: right_index[key] = [<j>]
               else:
                   bucket.append(<j>)
                   if check_right_unique [and key not in duplicates]: duplicates[key] = bucket
       No other statement of the method may WRITE right_index / duplicates / bucket."""
    err = lambda node, what: TranslationError(path, getattr(node, "lineno", M.lineno), f"Table.{M.name}: {what}")   # noqa: E731
    loops = [n for n in M.body if isinstance(n, ast.For) and ast.unparse(n.iter) == "range(right_nrows)"
             and any(isinstance(x, ast.Name) and x.id in ("right_index", "right_index_get", "bucket") for x in ast.walk(n))]
    if len(loops) != 1:
        raise err(M, f"expected one top-level `for <j> in range(right_nrows)` that builds right_index, found {len(loops)}")
    loop = loops[0]
    if loop.orelse or not isinstance(loop.target, ast.Name):
        raise err(loop, "loop shape")
    j = loop.target.id
    pos = M.body.index(loop)
    inits = [ast.unparse(s) for s in M.body[:pos]]
    if inits.count("right_index = {}") != 1:
        raise err(loop, "`right_index = {}` must occur exactly once before the loop")
    if inits.count("if check_right_unique:\n    duplicates = {}") != 1:
        raise err(loop, "`if check_right_unique: duplicates = {}` must occur exactly once before the loop")
    aliases = [s for s in M.body if ast.unparse(s) == "right_index_get = right_index.get"]
    getter = {"right_index.get(key)"}
    if aliases:
        if len(aliases) != 1 or M.body.index(aliases[0]) < inits.index("right_index = {}"):
            raise err(aliases[0], "`right_index_get = right_index.get` is bound more than once / before the dict exists")
        if M.body.index(aliases[0]) < pos:
            getter.add("right_index_get(key)")
    # writers outside the loop
    for st in M.body:
        if st is loop:
            continue
        for n in ast.walk(st):
            if isinstance(n, ast.Name) and isinstance(n.ctx, ast.Store) and n.id in ("right_index", "duplicates", "bucket", "right_index_get") \
                    and ast.unparse(st) not in ("right_index = {}", "right_index_get = right_index.get", "if check_right_unique:\n    duplicates = {}"):
                raise err(st, f"`{n.id}` is written outside the index loop")
            if isinstance(n, ast.Subscript) and isinstance(n.ctx, (ast.Store, ast.Del)) and ast.unparse(n.value) in ("right_index", "duplicates"):
                raise err(st, f"`{ast.unparse(n.value)}` is written outside the index loop")
            if isinstance(n, ast.Call) and isinstance(n.func, ast.Attribute) and ast.unparse(n.func.value) in ("right_index", "duplicates") \
                    and n.func.attr not in ("get", "items"):
                raise err(st, f"`{ast.unparse(n.func)}` is called outside the index loop")
    sts = list(loop.body)
    if len(sts) != 4:
        raise err(loop, f"the loop body has {len(sts)} statements, expected key / hashability check / bucket / branch")
    if ast.unparse(sts[0]) != f"key = tuple((col[{j}] for col in right_keys))":
        raise err(sts[0], f"the key is not `tuple(col[{j}] for col in right_keys)`: `{ast.unparse(sts[0])[:80]}`")
    hv = ast.unparse(sts[1])
    if hv not in (f"if validate_hashable:\n    Table._validate_key_tuple_hashable(key, right_keys, {j})",
                  f"if validate_hashable:\n    self._validate_key_tuple_hashable(key, right_keys, {j})"):
        raise err(sts[1], "the second statement is not the hashability validation of the key")
    if not (isinstance(sts[2], ast.Assign) and ast.unparse(sts[2].targets[0]) == "bucket" and ast.unparse(sts[2].value) in getter):
        raise err(sts[2], f"expected `bucket = right_index.get(key)`, found `{ast.unparse(sts[2])[:80]}`")
    br = sts[3]
    if not (isinstance(br, ast.If) and ast.unparse(br.test) == "bucket is None" and len(br.body) == 1
            and ast.unparse(br.body[0]) == f"right_index[key] = [{j}]" and len(br.orelse) == 2
            and ast.unparse(br.orelse[0]) == f"bucket.append({j})" and isinstance(br.orelse[1], ast.If)
            and not br.orelse[1].orelse and len(br.orelse[1].body) == 1
            and ast.unparse(br.orelse[1].body[0]) == "duplicates[key] = bucket"):
        raise err(br, "the branch is not `if bucket is None: right_index[key] = [<j>] else: bucket.append(<j>); "
                      "if check_right_unique ...: duplicates[key] = bucket`")
    test = ast.unparse(br.orelse[1].test)
    if test == "check_right_unique":
        cond = "chk"
    elif test == "check_right_unique and key not in duplicates":
        cond = "chk && negb (kmem dups key)"
    else:
        raise err(br.orelse[1], f"the duplicates test is `{test}`")
    text = (f"(* table.py:{loop.lineno}-{loop.end_lineno} Table.{M.name}: one step of the right index loop *)\n"
            f"Definition {pre}_index_step (chk : bool) (st : pdict * list (list cell)) (key : list cell) (py_{j} : nat)\n"
            f"  : pdict * list (list cell) :=\n"
            f"  let '(right_index, dups) := st in\n"
            f"  match dict_get keq right_index key with\n"
            f"  | None => (dict_set keq right_index key [py_{j}], dups)\n"
            f"  | Some b => (dict_set keq right_index key (b ++ [py_{j}]),\n"
            f"               if {cond} then (if kmem dups key then dups else dups ++ [key]) else dups)\n"
            f"  end.\n\n"
            f"(* key = tuple(col[j] for col in right_keys) *)\n"
            f"Definition {pre}_index_key (right_keys : list (list cell)) (py_{j} : nat) : list cell :=\n"
            f"  map (fun col => nth py_{j} col None) right_keys.\n\n"
            f"Definition {pre}_index (chk : bool) (right_keys : list (list cell)) (right_nrows : nat) : pdict * list (list cell) :=\n"
            f"  fold_left (fun st py_{j} => {pre}_index_step chk st ({pre}_index_key right_keys py_{j}) py_{j}) (seq 0 right_nrows) ([], []).\n")
    return text, [loop.lineno, loop.end_lineno]


def translate_join_index(src: Path):
    path = src / "table.py"
    tree = ast.parse(path.read_text(), filename=str(path))
    parts, lines = [], {}
    for meth, pre in JOINS:
        t, ln = translate_join_method(path, _one(tree, path, "Table", meth), pre)
        parts.append(t)
        lines[f"{pre}_index"] = ln
    notes = ["a dict is an association list in insertion order; `duplicates` is seen through its key set, in insertion order "
             "(its values alias the buckets and are only used in the error message); key equality (tuple ==) is the parameter keq",
             "the hashability validation either raises (keys outside the domain) or does nothing: not translated",
             "NOT translated: key resolution before the loop, the probe loops and the materialisation (Model/Join.v, tied by the "
             "correspondence checks of C09 / C10 / C11); the expect guard and the check flags are GenJoin.v's"]
    head = ("(* GenJoinIndex.v — GENERATED by harness/translate_partition.py from table.py (inner_join, join, full_join);\n"
            "   do not edit.  The hash index over the right table's key tuples and the duplicate bookkeeping.\n"
            + "".join(f"   {n}\n" for n in notes).replace("*)", "* )") + "*)\n" + IMPORTS_JI
            + "\nSection JoinIndex.\nVariable X : Type.\nNotation cell := (option X).\n"
              "Variable keq : list cell -> list cell -> bool.          (* tuple == *)\n"
              "Notation pdict := (list (list cell * list nat)).\n"
              "Definition kmem (s : list (list cell)) (k : list cell) : bool := existsb (fun k' => keq k k') s.\n\n")
    return head + "\n".join(parts) + "\nEnd JoinIndex.\n", {"lines": lines, "notes": notes}
