"""harness/translate_partition.py — fail-closed translator of the grouping loops of Table.aggregate and Table.window
(GenPartition.v): how rows are put into groups.

Source (table.py, both methods), in this order inside the method body (other statements may stand between them, but none
of them may mention the names involved):

    partition_index = {}
    pk_len = len(over)
    over_data = [c._underlying for c in over]
    row_keys = [None] * nrows                                   (window only)
    for <i> in range(nrows):
        key = tuple(over_data[<k>][<i>] for <k> in range(pk_len))
        row_keys[<i>] = key                                     (window only)
        bucket = partition_index.get(key)
        if bucket is None:
            partition_index[key] = [<i>]
        else:
            bucket.append(<i>)
    group_items = list(partition_index.items())

The translation (anything else is a TranslationError):
  a dict is an association list in insertion order (Base/GenPrelude: dict_get = first entry whose key is == to the probe,
  dict_set = replace that entry's VALUE in place - the stored key object stays - or append a new entry at the end);
  `bucket = d.get(key)` followed by `bucket.append(i)` is a write to the dict (the list is the dict's own value object);
  `for i in range(n)` is a left fold over 0..n-1; `list(d.items())` is the association list itself;
  `tuple(over_data[k][i] for k in range(pk_len))` is the list of the i-th cells of the key columns, in key order.
Key equality (tuple ==, after hashing) is the parameter keq."""
import ast
from pathlib import Path


class TranslationError(Exception):           # the same shape as harness.translate.TranslationError (caught there by name)
    def __init__(self, file, lineno, what):
        self.file, self.lineno, self.what = str(file), lineno, what
        super().__init__(f"{Path(str(file)).name}:{lineno}: {what}")


IMPORTS = ("From Coq Require Import List Bool Arith.\nFrom Serif Require Import Base.GenPrelude.\nImport ListNotations.\n")

NAMES = ("partition_index", "pk_len", "over_data", "row_keys", "group_items", "key", "bucket")
OWNED = ("partition_index", "pk_len", "over_data", "row_keys", "group_items", "bucket")   # `key` is re-used as a loop variable later


def _one(tree, path, cls, meth):
    cs = [n for n in tree.body if isinstance(n, ast.ClassDef) and n.name == cls]
    if len(cs) != 1:
        raise TranslationError(path, 0, f"class {cls}: found {len(cs)} definitions")
    ms = [n for n in ast.walk(cs[0]) if isinstance(n, (ast.FunctionDef, ast.AsyncFunctionDef)) and n.name == meth]
    if len(ms) != 1 or ms[0] not in cs[0].body or ms[0].decorator_list or isinstance(ms[0], ast.AsyncFunctionDef):
        raise TranslationError(path, 0, f"method {cls}.{meth}: found {len(ms)} plain definitions")
    return ms[0]


def _mentions(node, names):
    return sorted({n.id for n in ast.walk(node) if isinstance(n, ast.Name) and n.id in names})


def translate_method(path, M, window):
    err = lambda node, what: TranslationError(path, getattr(node, "lineno", M.lineno), f"Table.{M.name}: {what}")   # noqa: E731
    body = M.body
    # ---- the statements that touch the names, in order; nothing else may touch them (nested functions may READ group_items
    #      and row_keys: they are used after the loop)
    touching = []
    for st in body:
        if isinstance(st, ast.FunctionDef):
            w = {n.id for n in ast.walk(st) if isinstance(n, ast.Name) and n.id in OWNED and isinstance(n.ctx, ast.Store)}
            w |= {a.arg for a in ast.walk(st) if isinstance(a, ast.arg) and a.arg in ("partition_index", "over_data", "pk_len")}
            if w or _mentions(st, ("partition_index", "over_data", "pk_len", "bucket")):
                raise err(st, f"a nested function uses {sorted(w) or _mentions(st, NAMES)}")
            continue
        stores = {n.id for n in ast.walk(st) if isinstance(n, ast.Name) and n.id in OWNED and isinstance(n.ctx, ast.Store)}
        if stores or _mentions(st, ("partition_index", "over_data", "pk_len", "bucket")):
            touching.append(st)
    expect = ["partition_index = {}", "pk_len = len(over)", "over_data = [c._underlying for c in over]"]
    if window:
        expect.append("row_keys = [None] * nrows")
    if len(touching) != len(expect) + 2:
        raise err(M, f"expected {len(expect) + 2} statements touching the partition index, found {len(touching)}: "
                     f"{[ast.unparse(s).splitlines()[0][:50] for s in touching]}")
    for st, want in zip(touching, expect):
        if ast.unparse(st) != want:
            raise err(st, f"expected `{want}`, found `{ast.unparse(st).splitlines()[0][:80]}`")
    loop, after = touching[len(expect)], touching[len(expect) + 1]
    if ast.unparse(after) != "group_items = list(partition_index.items())":
        raise err(after, f"expected `group_items = list(partition_index.items())`, found `{ast.unparse(after)[:80]}`")
    for nm in ("over", "nrows"):
        first = body.index(touching[0])
        for st in body[first:body.index(after) + 1]:
            if any(isinstance(n, ast.Name) and n.id == nm and isinstance(n.ctx, ast.Store) for n in ast.walk(st)):
                raise err(st, f"`{nm}` is re-bound while the partition index is built")
    # ---- the loop
    if not (isinstance(loop, ast.For) and not loop.orelse and isinstance(loop.target, ast.Name)
            and ast.unparse(loop.iter) == "range(nrows)"):
        raise err(loop, "the loop is not `for <i> in range(nrows):`")
    i = loop.target.id
    if i in NAMES or i in ("over", "nrows"):
        raise err(loop, f"loop variable `{i}`")
    sts = list(loop.body)
    want_key = None
    if not sts or not (isinstance(sts[0], ast.Assign) and ast.unparse(sts[0].targets[0]) == "key" and len(sts[0].targets) == 1):
        raise err(loop, "the loop does not start with `key = ...`")
    kv = sts[0].value
    ok = (isinstance(kv, ast.Call) and isinstance(kv.func, ast.Name) and kv.func.id == "tuple" and len(kv.args) == 1
          and not kv.keywords and isinstance(kv.args[0], ast.GeneratorExp) and len(kv.args[0].generators) == 1)
    if ok:
        g = kv.args[0].generators[0]
        ok = (isinstance(g.target, ast.Name) and not g.ifs and not g.is_async and ast.unparse(g.iter) == "range(pk_len)"
              and g.target.id not in NAMES + (i, "over", "nrows")
              and ast.unparse(kv.args[0].elt) == f"over_data[{g.target.id}][{i}]")
    if not ok:
        raise err(sts[0], f"the key is not `tuple(over_data[<k>][{i}] for <k> in range(pk_len))`: `{ast.unparse(kv)[:80]}`")
    rest = sts[1:]
    if window:
        if not rest or ast.unparse(rest[0]) != f"row_keys[{i}] = key":
            raise err(loop, f"window: expected `row_keys[{i}] = key` after the key")
        rest = rest[1:]
    if len(rest) != 2 or ast.unparse(rest[0]) != "bucket = partition_index.get(key)":
        raise err(loop, f"expected `bucket = partition_index.get(key)` then one `if`, found "
                        f"{[ast.unparse(s).splitlines()[0][:50] for s in rest]}")
    br = rest[1]
    if not (isinstance(br, ast.If) and ast.unparse(br.test) == "bucket is None" and len(br.body) == 1 and len(br.orelse) == 1
            and ast.unparse(br.body[0]) == f"partition_index[key] = [{i}]"
            and ast.unparse(br.orelse[0]) == f"bucket.append({i})"):
        raise err(br, "the branch is not `if bucket is None: partition_index[key] = [<i>]  else: bucket.append(<i>)`")
    pre = "window" if window else "aggregate"
    text = (f"(* table.py:{touching[0].lineno}-{after.lineno} Table.{M.name}: the partition index *)\n"
            f"(* L{sts[0].lineno}: key = tuple(over_data[k][i] for k in range(pk_len)); pk_len = len(over) = length over_data *)\n"
            f"Definition {pre}_key (over_data : list (list cell)) (py_{i} : nat) : list cell :=\n"
            f"  map (fun py_k => nth py_{i} (nth py_k over_data []) None) (seq 0 (length over_data)).\n\n"
            f"(* L{rest[0].lineno}-{br.end_lineno}: bucket = partition_index.get(key); a new entry [i], or i appended to the dict's own list *)\n"
            f"Definition {pre}_step (partition_index : pdict) (key : list cell) (py_{i} : nat) : pdict :=\n"
            f"  let bucket := dict_get keq partition_index key in\n"
            f"  match bucket with\n"
            f"  | None => dict_set keq partition_index key [py_{i}]\n"
            f"  | Some b => dict_set keq partition_index key (b ++ [py_{i}])\n"
            f"  end.\n\n"
            f"(* L{loop.lineno}: for i in range(nrows); then group_items = list(partition_index.items()) *)\n"
            f"Definition {pre}_group_items (over_data : list (list cell)) (nrows : nat) : pdict :=\n"
            f"  fold_left (fun d py_{i} => {pre}_step d ({pre}_key over_data py_{i}) py_{i}) (seq 0 nrows) [].\n")
    if window:
        text += (f"\n(* L{sts[1].lineno}: row_keys[i] = key, for every i *)\n"
                 f"Definition window_row_keys (over_data : list (list cell)) (nrows : nat) : list (list cell) :=\n"
                 f"  map (window_key over_data) (seq 0 nrows).\n")
    return text, [touching[0].lineno, after.lineno]


def translate_partition(src: Path):
    path = src / "table.py"
    tree = ast.parse(path.read_text(), filename=str(path))
    parts, lines = [], {}
    for meth, window in (("aggregate", False), ("window", True)):
        t, ln = translate_method(path, _one(tree, path, "Table", meth), window)
        parts.append(t)
        lines[f"{meth}_group_items"] = ln
    notes = ["a dict is an association list in insertion order; key equality (tuple ==) is the parameter keq; "
             "`bucket.append(i)` on the list obtained by `.get` writes the dict's own value",
             "NOT translated: argument resolution and validation before the loop, what is done with group_items afterwards "
             "(GenReduce.v has the per-group functions; Model/Group.v the rest, tied by the correspondence checks)"]
    head = ("(* GenPartition.v — GENERATED by harness/translate_partition.py from table.py (Table.aggregate, Table.window);\n"
            "   do not edit.  How rows are put into groups: the partition index.\n"
            + "".join(f"   {n}\n" for n in notes).replace("*)", "* )") + "*)\n" + IMPORTS
            + "\nSection Partition.\nVariable X : Type.\nNotation cell := (option X).\n"
              "Variable keq : list cell -> list cell -> bool.          (* tuple == *)\n"
              "Notation pdict := (list (list cell * list nat)).\n\n")
    return head + "\n".join(parts) + "\nEnd Partition.\n", {"lines": lines, "notes": notes}
