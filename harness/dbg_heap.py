"""debug: python -m harness.dbg_heap <replay.json> — shows the first disagreeing step of a heap trace"""
import json, sys, subprocess, re
from harness import core
from harness.props import _heap as H
rp = json.load(open(sys.argv[1]))
case = rp["case"]
obs = core.run_impl("c01", [case])[0]
steps = obs["steps"]
d = core.WORK / "dbg"; d.mkdir(exist_ok=True, parents=True)
f = d / "dbg.v"
f.write_text(H.PRELUDE + "\nDefinition t := " + core.clist(steps) + ".\nEval vm_compute in (run init 0 t).\n")
r = core.coqc(f)
m = re.search(r"=\s*(\d+)", r.stdout); k = int(m.group(1)) if m else -1
print("first bad step:", k, "of", len(steps), r.stderr[-500:])
if k > 0:
    pre = steps[:k-1]
    f.write_text(H.PRELUDE + "\nDefinition t := " + core.clist(pre) + ".\nDefinition s0 := fold_left (fun s x => collect (fst ((if tshare x then step else step_d) s (top x))) (tdied x)) t init.\n"
                 "Definition x := " + steps[k-1] + ".\nEval vm_compute in ((if tshare x then step else step_d) s0 (top x)).\n")
    r = core.coqc(f)
    print("PROG OP:", [p for p in case["prog"]][:k+3])
    print("STEP   :", steps[k-1][:1500])
    print("MODEL  :", " ".join(r.stdout.split())[:1800], r.stderr[-300:])
